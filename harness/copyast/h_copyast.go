//go:build verif

package wire

// H_copyast: copyAST (with the real astutil.Apply interpreted) on one node of
// every go/ast kind, all scalar fields symbolic, every child a leaf; the
// per-kind cases are generated from go/ast's type information on every run
// (h_copyast_gen.go). One inductive step: a node whose children are copied
// correctly is copied correctly; identifiers keep their identity. C15.

import (
	"go/ast"
	"go/token"
)

func leafExpr(i int) ast.Expr {
	if i%2 == 0 {
		return &ast.Ident{Name: "x", NamePos: token.Pos(100 + i)}
	}
	return &ast.BasicLit{Kind: token.INT, Value: "7", ValuePos: token.Pos(100 + i)}
}
func leafStmt(i int) ast.Stmt           { return &ast.EmptyStmt{Semicolon: token.Pos(200 + i)} }
func leafDecl(i int) ast.Decl           { return &ast.BadDecl{From: token.Pos(300 + i), To: token.Pos(301 + i)} }
func leafSpec(i int) ast.Spec           { return &ast.ImportSpec{Path: &ast.BasicLit{Kind: token.STRING, Value: `"p"`, ValuePos: token.Pos(400 + i)}} }
func leafIdent(i int) *ast.Ident        { return &ast.Ident{Name: "id", NamePos: token.Pos(500 + i)} }
func leafLit(i int) *ast.BasicLit       { return &ast.BasicLit{Kind: token.STRING, Value: `"t"`, ValuePos: token.Pos(600 + i)} }
func leafBlock(i int) *ast.BlockStmt    { return &ast.BlockStmt{Lbrace: token.Pos(700 + i), Rbrace: token.Pos(701 + i)} }
func leafFieldList(i int) *ast.FieldList { return &ast.FieldList{Opening: token.Pos(800 + i), Closing: token.Pos(801 + i)} }
func leafFuncType(i int) *ast.FuncType  { return &ast.FuncType{Func: token.Pos(900 + i), Params: &ast.FieldList{Opening: token.Pos(901 + i)}} }
func leafComment(i int) *ast.Comment    { return &ast.Comment{Slash: token.Pos(1000 + i), Text: "// c"} }
func leafComments(i int) *ast.CommentGroup {
	return &ast.CommentGroup{List: []*ast.Comment{leafComment(i)}}
}
func leafCall(i int) *ast.CallExpr { return &ast.CallExpr{Fun: &ast.Ident{Name: "f"}, Lparen: token.Pos(1100 + i)} }
func leafField(i int) *ast.Field   { return &ast.Field{Type: &ast.Ident{Name: "T", NamePos: token.Pos(1200 + i)}} }

// checkChild compares a copied child with the original.
func checkChild(where string, c, n ast.Node, cNil, nNil bool) {
	vA("C15", cNil == nNil, "a child is nil in the copy exactly when it is nil in the original: "+where)
	if nNil || cNil {
		return
	}
	switch o := n.(type) {
	case *ast.Ident:
		vA("C15", c == n, "identifiers keep their identity: "+where)
	case *ast.BasicLit:
		cc, ok := c.(*ast.BasicLit)
		vA("C15", ok && cc != o && cc.Value == o.Value && cc.Kind == o.Kind && cc.ValuePos == o.ValuePos, "a literal child is copied: "+where)
	case *ast.EmptyStmt:
		cc, ok := c.(*ast.EmptyStmt)
		vA("C15", ok && cc != o && cc.Semicolon == o.Semicolon, "a statement child is copied: "+where)
	case *ast.BadDecl:
		cc, ok := c.(*ast.BadDecl)
		vA("C15", ok && cc != o && cc.From == o.From && cc.To == o.To, "a declaration child is copied: "+where)
	case *ast.ImportSpec:
		cc, ok := c.(*ast.ImportSpec)
		vA("C15", ok && cc != o && cc.Path != nil && cc.Path != o.Path && cc.Path.Value == o.Path.Value && cc.Path.ValuePos == o.Path.ValuePos, "a spec child is copied: "+where)
	case *ast.BlockStmt:
		cc, ok := c.(*ast.BlockStmt)
		vA("C15", ok && cc != o && cc.Lbrace == o.Lbrace && cc.Rbrace == o.Rbrace, "a block child is copied: "+where)
	case *ast.FieldList:
		cc, ok := c.(*ast.FieldList)
		vA("C15", ok && cc != o && cc.Opening == o.Opening && cc.Closing == o.Closing, "a field-list child is copied: "+where)
	case *ast.FuncType:
		cc, ok := c.(*ast.FuncType)
		vA("C15", ok && cc != o && cc.Func == o.Func && cc.Params != nil && cc.Params != o.Params && cc.Params.Opening == o.Params.Opening, "a function-type child is copied: "+where)
	case *ast.Comment:
		cc, ok := c.(*ast.Comment)
		vA("C15", ok && cc != o && cc.Slash == o.Slash && cc.Text == o.Text, "a comment child is copied: "+where)
	case *ast.CommentGroup:
		cc, ok := c.(*ast.CommentGroup)
		vA("C15", ok && cc != o && len(cc.List) == 1 && cc.List[0] != o.List[0] && cc.List[0].Text == o.List[0].Text, "a comment-group child is copied: "+where)
	case *ast.CallExpr:
		cc, ok := c.(*ast.CallExpr)
		vA("C15", ok && cc != o && cc.Lparen == o.Lparen && cc.Fun == o.Fun, "a call child is copied (its identifier callee kept): "+where)
	case *ast.Field:
		cc, ok := c.(*ast.Field)
		vA("C15", ok && cc != o && cc.Type == o.Type, "a field child is copied (its identifier type kept): "+where)
	default:
		vA("C15", false, "unknown leaf kind in harness: "+where)
	}
}

func H_copyast() {
	kind := vConc(vInt("kind", 0, len(copyastKinds())-1))
	full := vConcBool(vBool("childrenPresent"))
	vNote(copyastKinds()[kind])
	copyastCase(kind, full)
	vCover("copied")
}
