//go:build verif

package main


// Bodies are never executed: gosym intercepts these by name.

func vInt(name string, lo, hi int) int                { panic("intrinsic") }
func vBool(name string) bool                          { panic("intrinsic") }
func vByte(name string, lo, hi byte) byte             { panic("intrinsic") }
func vStr(name string, n int, lo, hi byte) string     { panic("intrinsic") }
func vAssume(c bool)                                  { panic("intrinsic") }
func vAssert(c bool, msg string)                      { panic("intrinsic") }
func vAssertClass(c bool, msg, class string)          { panic("intrinsic") }
func vAnd(a, b bool) bool                             { panic("intrinsic") }
func vOr(a, b bool) bool                              { panic("intrinsic") }
func vImplies(a, b bool) bool                         { panic("intrinsic") }
func vIff(a, b bool) bool                             { panic("intrinsic") }
func vNot(a bool) bool                                { panic("intrinsic") }
func vIte(c bool, a, b int) int                       { panic("intrinsic") }
func vIteB(c bool, a, b bool) bool                    { panic("intrinsic") }
func vEqStr(a, b string) bool                         { panic("intrinsic") }
func vCover(label string)                             { panic("intrinsic") }
func vNote(s string)                                  { panic("intrinsic") }
func vParam(name string, def int) int                 { panic("intrinsic") }
func vStub(name string, fn interface{})               { panic("intrinsic") }
func vUnstub(name string)                             { panic("intrinsic") }
func vConc(x int) int                                 { panic("intrinsic") }
func vConcBool(x bool) bool                           { panic("intrinsic") }
func vEngine() bool                                   { panic("intrinsic") }
func vPrune()                                         { panic("intrinsic") }
func vStepBudget(n int, class, msg string)             { panic("intrinsic") }
func vStepBudgetEnd()                                 { panic("intrinsic") }
func vSteps() int                                     { panic("intrinsic") }
func vSinkText(p interface{}) string                  { panic("intrinsic") }

func vSetupGlobals() {}
