//go:build verif

package main

// Harness runtime shared by the symbolic engine (gosym) and native replay.
// These files are injected into package main by overlay only; nothing here is
// part of google/wire.


func vAll(cs ...bool) bool {
	r := true
	for _, c := range cs {
		r = vAnd(r, c)
	}
	return r
}

func vAny(cs ...bool) bool {
	r := false
	for _, c := range cs {
		r = vOr(r, c)
	}
	return r
}

// vA asserts c on behalf of the listed properties ("C02,C11"); the class of a
// violation is "<props>:<msg>".
func vA(props string, c bool, msg string) { vAssertClass(c, msg, props+":"+msg) }
