//go:build verif

package main

// H_gather: the real gather / mergeTypeSets / sameTypeKeys of `wire show` on a
// provider set whose dependency edges are symbolic (acyclic by construction).
// C19: every type the set can provide is listed in exactly one group, and the
// group's inputs are exactly the types that must come from outside to obtain
// it; the named sets reached through imports are listed.

import (
	"fmt"
	"go/types"

	"github.com/google/wire/internal/wire"
)

func H_gather() {
	sk := vParam("skeleton", 1136)
	var kinds []int
	for d := sk; d > 0; d /= 10 {
		kinds = append([]int{d % 10}, kinds...)
	}
	K := vParam("K", 2)
	N := len(kinds)
	M := vParam("inputs", 2) // types N..N+M-1 are not provided: they are inputs
	pkg := types.NewPackage("example.com/h", "h")
	dep := make([][]int, N)
	var providers []*wire.Provider
	var values []*wire.Value
	var fields []*wire.Field
	var bindings []*wire.IfaceBinding
	var nested, nested2 []*wire.Provider
	nprov := 0
	for k, kind := range kinds {
		switch kind {
		case 1: // provider function
			ar := vConc(vInt(fmt.Sprintf("arity%d", k), 0, K))
			p := &wire.Provider{Pkg: pkg, Name: fmt.Sprintf("n%d", k), Out: []types.Type{wire.VerifType(k)}}
			for s := 0; s < ar; s++ {
				a := vInt(fmt.Sprintf("arg%d_%d", k, s), k+1, N+M-1)
				for _, b := range dep[k] {
					vAssume(a != b)
				}
				dep[k] = append(dep[k], a)
				p.Args = append(p.Args, wire.ProviderInput{Type: wire.VerifType(a)})
			}
			switch nprov % 3 {
			case 1:
				nested = append(nested, p)
			case 2:
				nested2 = append(nested2, p)
			default:
				providers = append(providers, p)
			}
			nprov++
		case 3: // field
			a := vInt(fmt.Sprintf("parent%d", k), k+1, N+M-1)
			dep[k] = []int{a}
			fields = append(fields, &wire.Field{Parent: wire.VerifType(a), Name: fmt.Sprintf("n%d", k), Pkg: pkg, Out: []types.Type{wire.VerifType(k)}})
		case 6: // value
			values = append(values, &wire.Value{Out: wire.VerifType(k)})
		}
	}
	// Outer includes two inline (unnamed) sets of the same package; each of them includes a named set
	var imports []*wire.ProviderSet
	wantImports := 0
	for i, ps := range [][]*wire.Provider{nested, nested2} {
		if len(ps) == 0 {
			continue
		}
		named, errs := wire.VerifNewSet("example.com/other", fmt.Sprintf("Inner%d", i), ps, nil, nil, nil, nil)
		vA("C10", len(errs) == 0, "inner set accepted")
		if len(errs) > 0 {
			return
		}
		inline, errs := wire.VerifNewSet("example.com/h", "", nil, nil, nil, nil, []*wire.ProviderSet{named})
		vA("C10", len(errs) == 0, "inline set accepted")
		if len(errs) > 0 {
			return
		}
		imports = append(imports, inline)
		wantImports++
	}
	set, errs := wire.VerifNewSet("example.com/h", "Outer", providers, values, fields, bindings, imports)
	vA("C10", len(errs) == 0, "outer set accepted")
	if len(errs) > 0 {
		return
	}
	key := wire.ProviderSetID{ImportPath: "example.com/h", VarName: "Outer"}
	info := &wire.Info{Sets: map[wire.ProviderSetID]*wire.ProviderSet{key: set}}

	groups, imps := gather(info, key)

	// ---- oracle: needs[k][u] = input u (N..N+M-1) is required to obtain type k
	needs := make([][]bool, N)
	for k := N - 1; k >= 0; k-- {
		needs[k] = make([]bool, M)
		for _, d := range dep[k] {
			for u := 0; u < M; u++ {
				needs[k][u] = vOr(needs[k][u], d == N+u)
			}
			for j := k + 1; j < N; j++ {
				for u := 0; u < M; u++ {
					needs[k][u] = vOr(needs[k][u], vAnd(d == j, needs[j][u]))
				}
			}
		}
	}
	seen := make([]int, N)
	for gi := range groups {
		g := &groups[gi]
		for k := 0; k < N; k++ {
			if g.outputs.At(wire.VerifType(k)) == nil {
				continue
			}
			seen[k]++
			for u := 0; u < M; u++ {
				has := g.inputs.At(wire.VerifType(N+u)) != nil
				vA("C19", vIff(has, needs[k][u]), "a type is grouped under exactly the inputs that must be supplied from outside to obtain it")
			}
			vA("C19", g.inputs.Len() <= M, "group inputs are input types only")
		}
		for gj := 0; gj < gi; gj++ {
			vA("C19", !sameTypeKeys(groups[gj].inputs, g.inputs), "no two groups have the same input set")
		}
	}
	for k := 0; k < N; k++ {
		vA("C19", seen[k] == 1, "every type the set can provide is listed in exactly one group")
	}
	vA("C19", len(imps) == wantImports, "exactly the named sets a set includes (also through inline sets) are listed")
	for i, ps := range [][]*wire.Provider{nested, nested2} {
		if len(ps) > 0 {
			_, ok := imps[formatProviderSetName("example.com/other", fmt.Sprintf("Inner%d", i))]
			vA("C19", ok, "a named set reached through an inline set is listed")
		}
	}
	if wantImports == 2 {
		vCover("two-inline-sets")
	}
	if len(groups) >= 2 {
		vCover("groups>=2")
	}
	vCover("gathered")
}
