//go:build verif

package main

// H_cli_gen / H_cli_diff / H_cli_check / H_cli_show: the real Execute methods
// of cmd/wire (and the real wire.GenerateResult.Commit) against a stubbed
// environment: os.Getwd, ioutil.ReadFile/WriteFile, wire.Generate/Load,
// flag.FlagSet.Args, os.Environ and difflib return arbitrary values of their
// type constrained only by their contract. C17, C18.

import (
	"context"
	"errors"
	"flag"
	"fmt"
	"io"
	"os"

	"github.com/google/subcommands"
	"github.com/google/wire/internal/wire"
	"github.com/pmezard/go-difflib/difflib"
)

type cliWorld struct {
	n           int
	getwdFails  bool
	headerGiven bool
	headerOK    bool
	loadErr     bool
	hasErrs     []bool
	hasContent  []bool
	commitFails []bool
	fileState   []int // prior output file: 0 absent, 1 equal to new content, 2 different
	writes      []string
	writeData   []string
	reads       []string
	removed     []string
	files       map[string]string // modelled file system: output path -> content ("" + absent flag below)
	present     map[string]bool
	handles     map[*os.File]string
	offsets     map[*os.File]int
	generateCalled int
	tagsSeen    string
	prefixSeen  string
	headerSeen  string
}

var cw *cliWorld

func outPath(i int, prefix string) string { return fmt.Sprintf("/src/p%d/%swire_gen.go", i, prefix) }
func newContent(i int) string              { return fmt.Sprintf("// generated for p%d\n", i) }

func setupCLI(maxPkgs int) *cliWorld {
	w := &cliWorld{}
	cw = w
	w.n = vConc(vInt("npkgs", 0, maxPkgs))
	w.getwdFails = vBool("getwdFails")
	w.headerGiven = vConcBool(vBool("headerGiven"))
	if w.headerGiven {
		w.headerOK = vBool("headerReadable")
	}
	w.loadErr = vBool("loadErr")
	for i := 0; i < w.n; i++ {
		e := vBool(fmt.Sprintf("hasErrs%d", i))
		c := vBool(fmt.Sprintf("hasContent%d", i))
		w.hasErrs = append(w.hasErrs, e)
		w.hasContent = append(w.hasContent, c)
		w.commitFails = append(w.commitFails, vBool(fmt.Sprintf("commitFails%d", i)))
		w.fileState = append(w.fileState, vInt(fmt.Sprintf("fileState%d", i), 0, 3))
	}
	w.files = map[string]string{}
	w.present = map[string]bool{}
	w.handles = map[*os.File]string{}
	w.offsets = map[*os.File]int{}
	// the prior content of an output path is materialised on first touch
	touch := func(name string) {
		if _, seen := w.files[name]; seen {
			return
		}
		w.files[name] = ""
		for i := 0; i < w.n; i++ {
			if name == outPath(i, w.prefixSeen) {
				switch vConc(w.fileState[i]) {
				case 1:
					w.files[name], w.present[name] = newContent(i), true
				case 2:
					w.files[name], w.present[name] = "// stale or hand-damaged content\n", true
				case 3:
					w.files[name], w.present[name] = newContent(i)+"func leftover() {}\n", true
				}
			}
		}
	}
	vStub("os.Getwd", func() (string, error) {
		if w.getwdFails {
			return "", errors.New("getwd failed")
		}
		return "/wd", nil
	})
	vStub("os.Environ", func() []string { return nil })
	vStub("(*flag.FlagSet).Args", func(f *flag.FlagSet) []string { return []string{"./..."} })
	vStub("io/ioutil.ReadFile", func(name string) ([]byte, error) {
		w.reads = append(w.reads, name)
		if name == "/hdr" {
			if w.headerOK {
				return []byte("// header\n"), nil
			}
			return nil, errors.New("unreadable header")
		}
		for i := 0; i < w.n; i++ {
			if name == outPath(i, w.prefixSeen) {
				touch(name)
				if !w.present[name] {
					return nil, errors.New("no such file")
				}
				return []byte(w.files[name]), nil
			}
		}
		return nil, errors.New("no such file")
	})
	fails := func(name string) bool {
		for i := 0; i < w.n; i++ {
			if name == outPath(i, w.prefixSeen) && vConcBool(w.commitFails[i]) {
				return true
			}
		}
		return false
	}
	writeFile := func(name string, data []byte, perm os.FileMode) error {
		w.writes = append(w.writes, name)
		w.writeData = append(w.writeData, string(data))
		if fails(name) {
			return errors.New("write failed")
		}
		touch(name)
		w.files[name], w.present[name] = string(data), true
		return nil
	}
	vStub("io/ioutil.WriteFile", writeFile)
	vStub("os.WriteFile", writeFile)
	openFile := func(name string, flag int, perm os.FileMode) (*os.File, error) {
		if flag&(os.O_WRONLY|os.O_RDWR) != 0 {
			w.writes = append(w.writes, name)
			w.writeData = append(w.writeData, "")
		}
		if fails(name) {
			return nil, errors.New("open failed")
		}
		touch(name)
		if flag&os.O_CREATE == 0 && !w.present[name] {
			return nil, errors.New("no such file")
		}
		if flag&(os.O_WRONLY|os.O_RDWR) != 0 {
			w.present[name] = true
			if flag&os.O_TRUNC != 0 {
				w.files[name] = ""
			}
		}
		f := new(os.File)
		w.handles[f] = name
		return f, nil
	}
	vStub("os.OpenFile", openFile)
	vStub("os.Create", func(name string) (*os.File, error) { return openFile(name, os.O_RDWR|os.O_CREATE|os.O_TRUNC, 0666) })
	fwrite := func(f *os.File, b []byte) (int, error) {
		name := w.handles[f]
		// a file opened without O_APPEND is written from offset 0 on: the model only supports whole-file writes after truncation and appends
		w.files[name] += string(b)
		if len(w.writeData) > 0 {
			w.writeData[len(w.writeData)-1] += string(b)
		}
		return len(b), nil
	}
	vStub("(*os.File).Write", fwrite)
	vStub("(*os.File).WriteString", func(f *os.File, s string) (int, error) { return fwrite(f, []byte(s)) })
	vStub("os.Open", func(name string) (*os.File, error) { return openFile(name, os.O_RDONLY, 0) })
	vStub("(*os.File).Read", func(f *os.File, b []byte) (int, error) {
		name := w.handles[f]
		w.reads = append(w.reads, name)
		content := w.files[name]
		off := w.offsets[f]
		if off >= len(content) {
			return 0, io.EOF
		}
		n := copy(b, content[off:])
		w.offsets[f] = off + n
		return n, nil
	})
	vStub("(*os.File).Close", func(f *os.File) error { return nil })
	vStub("(*os.File).Sync", func(f *os.File) error { return nil })
	vStub("os.Remove", func(name string) error { w.removed = append(w.removed, name); return nil })
	vStub("os.Rename", func(a, b string) error { w.removed = append(w.removed, a); return nil })
	vStub("github.com/google/wire/internal/wire.Generate", func(ctx context.Context, wd string, env []string, patterns []string, opts *wire.GenerateOptions) ([]wire.GenerateResult, []error) {
		w.generateCalled++
		if opts != nil {
			w.tagsSeen = opts.Tags
			w.prefixSeen = opts.PrefixOutputFile
			w.headerSeen = string(opts.Header)
		}
		if w.loadErr {
			return nil, []error{errors.New("load failed")}
		}
		res := make([]wire.GenerateResult, w.n)
		for i := 0; i < w.n; i++ {
			res[i].PkgPath = fmt.Sprintf("example.com/p%d", i)
			res[i].OutputPath = outPath(i, w.prefixSeen)
			if w.hasErrs[i] {
				res[i].Errs = []error{errors.New("analysis failed")}
			}
			if w.hasContent[i] {
				res[i].Content = []byte(newContent(i))
			}
		}
		return res, nil
	})
	vStub("github.com/pmezard/go-difflib/difflib.SplitLines", func(s string) []string { return []string{s} })
	vStub("github.com/pmezard/go-difflib/difflib.GetUnifiedDiffString", func(d difflib.UnifiedDiff) (string, error) {
		if len(d.A) == len(d.B) && (len(d.A) == 0 || d.A[0] == d.B[0]) {
			return "", nil
		}
		return "@@ differs @@", nil
	})
	return w
}

func headerArg(w *cliWorld) string {
	if w.headerGiven {
		return "/hdr"
	}
	return ""
}

// Generate's documented contract: analysis errors leave Content nil; the one
// exception (gofmt failure keeps the unformatted source next to the error) is
// part of the modelled space because a result may have both.
func H_cli_gen() {
	w := setupCLI(vParam("pkgs", 2))
	cmd := &genCmd{headerFile: headerArg(w), prefixFileName: "", tags: []string{"", "sometag other"}[vConc(vInt("tags", 0, 1))]}
	if vConcBool(vBool("withPrefix")) {
		cmd.prefixFileName = "zz_"
	}
	status := cmd.Execute(nil, new(flag.FlagSet))

	envOK := vAnd(vNot(w.getwdFails), vOr(!w.headerGiven, w.headerOK))
	ok := vAnd(envOK, vNot(w.loadErr))
	for i := 0; i < w.n; i++ {
		ok = vAnd(ok, vNot(w.hasErrs[i]))
		ok = vAnd(ok, vOr(vNot(w.hasContent[i]), vNot(w.commitFails[i])))
	}
	// (C18 too: a gen that reports success although a package failed leaves that package's stale output behind)
	vA("C17,C18", vImplies(status == subcommands.ExitSuccess, ok), "gen exits 0 only when the environment is usable, loading succeeded, no package has errors and every write succeeded")
	vA("C17", vImplies(ok, status == subcommands.ExitSuccess), "gen exits 0 when the environment is usable, loading succeeded, no package has errors and every write succeeded")
	// file-system footprint
	reached := vConcBool(vAnd(envOK, vNot(w.loadErr)))
	wantWrites := 0
	for i := 0; i < w.n; i++ {
		if reached && vConcBool(w.hasContent[i]) {
			wantWrites++
		}
	}
	vA("C17", len(w.writes) == wantWrites, "gen writes exactly one file per package with generated content (a failing package does not stop the others)")
	k := 0
	for i := 0; i < w.n; i++ {
		if reached && vConcBool(w.hasContent[i]) {
			vA("C17", w.writes[k] == outPath(i, cmd.prefixFileName), "gen writes only <prefix>wire_gen.go in the package directory")
			vA("C18", w.writeData[k] == newContent(i), "the file written is exactly the generated content, whatever was there before")
			k++
		}
	}
	// post-state of the modelled file system (independent of how Commit writes)
	for i := 0; i < w.n; i++ {
		path := outPath(i, cmd.prefixFileName)
		if reached && vConcBool(w.hasContent[i]) && !vConcBool(w.commitFails[i]) {
			vA("C18,C17", w.present[path] && w.files[path] == newContent(i), "after gen the output file holds exactly the generated content, whatever it held before")
		}
	}
	for path := range w.files {
		known := false
		for i := 0; i < w.n; i++ {
			known = known || path == outPath(i, cmd.prefixFileName)
		}
		vA("C17", known, "gen touches no file other than <prefix>wire_gen.go of the processed packages")
	}
	vA("C17", len(w.removed) == 0, "gen removes or renames nothing")
	// C18: a gen that reports success has brought every processed package to the state a fresh checkout
	// would get: no package was left behind with errors (its old file, whatever it held, would survive)
	if status == subcommands.ExitSuccess {
		for i := 0; i < w.n; i++ {
			path := outPath(i, cmd.prefixFileName)
			if vConcBool(w.hasContent[i]) {
				vA("C18", w.present[path] && w.files[path] == newContent(i), "after a successful gen every generated package holds exactly the fresh content")
			}
		}
	}
	if reached {
		vA("C17,C18", w.prefixSeen == cmd.prefixFileName && w.tagsSeen == cmd.tags, "options (prefix, tags) are passed through to generation, with or without a header file")
		if w.headerGiven {
			vA("C17", w.headerSeen == "// header\n", "header file content is passed through")
		}
		vCover("gen-reached-generate")
	}
	if status == subcommands.ExitSuccess {
		vCover("gen-exit0")
	} else {
		vCover("gen-exit1")
	}
}

func H_cli_diff() {
	w := setupCLI(vParam("pkgs", 2))
	cmd := &diffCmd{headerFile: headerArg(w), tags: []string{"", "sometag other"}[vConc(vInt("tags", 0, 1))]}
	status := cmd.Execute(nil, new(flag.FlagSet))

	trouble := vOr(w.getwdFails, vOr(vAnd(w.headerGiven, vNot(w.headerOK)), w.loadErr))
	differs := false
	for i := 0; i < w.n; i++ {
		trouble = vOr(trouble, w.hasErrs[i])
		differs = vOr(differs, vAnd(w.hasContent[i], w.fileState[i] != 1))
	}
	vA("C17", vIff(status == subcommands.ExitStatus(2), trouble), "diff exits 2 exactly when it cannot complete the comparison (environment, header file, load or generation failure)")
	vA("C17", vImplies(vNot(trouble), vIff(status == subcommands.ExitStatus(1), differs)), "diff exits 1 exactly when some on-disk file differs from or lacks the generated content")
	vA("C17,C18", vImplies(vAnd(vNot(trouble), vNot(differs)), status == subcommands.ExitSuccess), "diff exits 0 when every file equals what gen would write")
	vA("C17", len(w.writes) == 0 && len(w.removed) == 0, "diff never modifies the tree")
	if w.generateCalled > 0 {
		vA("C17,C18", w.tagsSeen == cmd.tags, "diff passes the user's tags through to generation, with or without a header file")
	}
	switch status {
	case subcommands.ExitSuccess:
		vCover("diff-exit0")
	case subcommands.ExitStatus(1):
		vCover("diff-exit1")
	default:
		vCover("diff-exit2")
	}
}

func setupLoad(w *cliWorld) {
	vStub("github.com/google/wire/internal/wire.Load", func(ctx context.Context, wd string, env []string, tags string, patterns []string) (*wire.Info, []error) {
		if w.loadErr {
			return nil, []error{errors.New("load failed")}
		}
		info := &wire.Info{Sets: map[wire.ProviderSetID]*wire.ProviderSet{}}
		var errs []error
		for i := 0; i < w.n; i++ {
			if w.hasErrs[i] {
				errs = append(errs, errors.New("wire error"))
			} else {
				info.Injectors = append(info.Injectors, &wire.Injector{ImportPath: fmt.Sprintf("example.com/p%d", i), FuncName: "inject"})
			}
		}
		return info, errs
	})
}

func H_cli_check() {
	w := setupCLI(vParam("pkgs", 2))
	setupLoad(w)
	cmd := &checkCmd{}
	status := cmd.Execute(nil, new(flag.FlagSet))
	ok := vAnd(vNot(w.getwdFails), vNot(w.loadErr))
	for i := 0; i < w.n; i++ {
		ok = vAnd(ok, vNot(w.hasErrs[i]))
	}
	vA("C17,C19", vIff(status == subcommands.ExitSuccess, ok), "check exits 0 exactly when loading succeeded and no package reported an error")
	vA("C17", len(w.writes) == 0 && len(w.removed) == 0 && w.generateCalled == 0, "check never modifies the tree")
	if status == subcommands.ExitSuccess {
		vCover("check-exit0")
	} else {
		vCover("check-exit1")
	}
}

func H_cli_show() {
	w := setupCLI(vParam("pkgs", 2))
	setupLoad(w)
	cmd := &showCmd{}
	status := cmd.Execute(nil, new(flag.FlagSet))
	ok := vAnd(vNot(w.getwdFails), vNot(w.loadErr))
	for i := 0; i < w.n; i++ {
		ok = vAnd(ok, vNot(w.hasErrs[i]))
	}
	vA("C17,C19", vIff(status == subcommands.ExitSuccess, ok), "show exits 0 exactly when loading succeeded and no package reported an error")
	vA("C17", len(w.writes) == 0 && len(w.removed) == 0 && w.generateCalled == 0, "show never modifies the tree")
	if status == subcommands.ExitSuccess {
		vCover("show-exit0")
	} else {
		vCover("show-exit1")
	}
}
