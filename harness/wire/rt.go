//go:build verif

package wire

// Harness runtime shared by the symbolic engine (gosym) and native replay.
// These files are injected into package wire by overlay only; nothing here is
// part of google/wire.

import (
	"go/types"
)

// Reserved abstract type ids.
const (
	vIDError   = 1000
	vIDCleanup = 1001
)

// vAbs is an abstract named type: the engine models types.Identical on two
// vAbs values as equality of their (possibly symbolic) ids.
type vAbs struct {
	id    int
	under types.Type
}

func (a *vAbs) Underlying() types.Type {
	if a.under != nil {
		return a.under
	}
	return a
}

func (a *vAbs) String() string { return "T" }

func vAll(cs ...bool) bool {
	r := true
	for _, c := range cs {
		r = vAnd(r, c)
	}
	return r
}

func vAny(cs ...bool) bool {
	r := false
	for _, c := range cs {
		r = vOr(r, c)
	}
	return r
}

// vA asserts c on behalf of the listed properties ("C02,C11"); the class of a
// violation is "<props>:<msg>".
func vA(props string, c bool, msg string) { vAssertClass(c, msg, props+":"+msg) }
