//go:build verif

package wire

// H_sig: funcOutput / injectorFuncSignature / processFuncProvider /
// processStructLiteralProvider on symbolic result and parameter lists (C09).
// H_inject: gen.inject (solve + needs-error/needs-cleanup rule + both emission
// passes) on a symbolic provider graph with symbolic HasErr/HasCleanup flags
// and every injector result shape (C03, C09; emission must not crash: C01/C20).

import (
	"fmt"
	"go/ast"
	"go/token"
	"go/types"
	"strings"

	"golang.org/x/tools/go/packages"
)

const (
	rkPlain     = 0 // abstract type id 0..2, or error (id 3 -> error)
	rkCleanup   = 1 // func()
	rkNamedFunc = 2 // named type whose underlying type is func()
	rkOtherFunc = 3 // func(T0)
)

// sigResult draws one result position.
func sigResult(i int) (t types.Type, kind int, isErr bool) {
	kind = vConc(vInt(fmt.Sprintf("rkind%d", i), 0, 3))
	switch kind {
	case rkPlain:
		id := vInt(fmt.Sprintf("rid%d", i), 0, 3)
		isErr = id == 3
		t = vType(vIte(isErr, vIDError, id))
	case rkCleanup:
		t = types.NewSignature(nil, nil, nil, false)
	case rkNamedFunc:
		t = vTypeU(50+i, types.NewSignature(nil, nil, nil, false))
	default:
		t = types.NewSignature(nil, types.NewTuple(types.NewVar(token.NoPos, nil, "x", vType(0))), nil, false)
	}
	return
}

func H_sig() {
	n := vConc(vInt("nresults", 0, 4))
	var vars []*types.Var
	kinds := make([]int, n)
	isErr := make([]bool, n)
	rts := make([]types.Type, n)
	for i := 0; i < n; i++ {
		rts[i], kinds[i], isErr[i] = sigResult(i)
		vars = append(vars, types.NewVar(token.NoPos, nil, "", rts[i]))
	}
	// parameters: 0..3 with symbolic type ids 10..13
	np := vConc(vInt("nparams", 0, 3))
	var pvars []*types.Var
	pids := make([]int, np)
	for i := 0; i < np; i++ {
		pids[i] = vInt(fmt.Sprintf("pid%d", i), 10, 13)
		pvars = append(pvars, types.NewVar(token.NoPos, nil, fmt.Sprintf("p%d", i), vType(pids[i])))
	}
	sig := types.NewSignature(nil, types.NewTuple(pvars...), types.NewTuple(vars...), false)

	// ---- funcOutput
	out, err := funcOutput(sig)
	wantOK, wantErr, wantCleanup := false, false, false
	switch n {
	case 1:
		wantOK = true
	case 2:
		wantErr = kinds[1] == rkPlain && vConcBool(isErr[1])
		wantCleanup = kinds[1] == rkCleanup
		wantOK = wantErr || wantCleanup
	case 3:
		wantOK = kinds[1] == rkCleanup && kinds[2] == rkPlain && vConcBool(isErr[2])
		wantErr, wantCleanup = wantOK, wantOK
	}
	vA("C09", (err == nil) == wantOK, "funcOutput accepts exactly the four legal result shapes")
	if err == nil {
		vA("C09", out.err == wantErr && out.cleanup == wantCleanup, "funcOutput classifies error and cleanup results")
		vA("C09", out.out == rts[0], "funcOutput takes the first result as the provided type")
		vCover("sig-accepted")
	} else {
		vCover("sig-rejected")
	}
	ins, out2, err2 := injectorFuncSignature(sig)
	vA("C09", (err2 == nil) == wantOK, "injectorFuncSignature accepts exactly the legal shapes")
	if err2 == nil {
		vA("C09", ins.Len() == np && out2.err == wantErr && out2.cleanup == wantCleanup, "injector signature keeps parameters and flags")
	}

	// ---- processFuncProvider
	pkg := types.NewPackage("example.com/h", "h")
	fn := types.NewFunc(token.NoPos, pkg, "NewX", sig)
	p, errs := processFuncProvider(new(token.FileSet), fn)
	dup := false
	for i := 0; i < np; i++ {
		for j := 0; j < i; j++ {
			dup = vOr(dup, pids[i] == pids[j])
		}
	}
	wantReject := vOr(!wantOK, dup)
	vA("C09", vIff(len(errs) > 0, wantReject), "a provider function is rejected iff its result shape is illegal or two parameters have identical types")
	if len(errs) == 0 {
		vA("C09", p != nil && len(p.Args) == np && len(p.Out) == 1 && p.Out[0] == rts[0], "provider records parameters and output")
		vA("C09,C03", p.HasErr == wantErr && p.HasCleanup == wantCleanup, "provider records whether it returns an error / a cleanup")
		for i := 0; i < np; i++ {
			vA("C09,C02", vTypeID(p.Args[i].Type) == pids[i], "provider inputs are the parameter types in order")
		}
		vCover("provider-accepted")
	} else {
		for _, e := range errs {
			_, isWireErr := e.(*wireErr)
			vA("C20", isWireErr, "signature diagnostics carry a position")
		}
		if vConcBool(dup) {
			vCover("provider-dup-param")
		}
	}
}

// H_structlit: the deprecated struct-literal provider: duplicate field types.
func H_structlit() {
	nf := vConc(vInt("nfields", 0, 3))
	var fields []*types.Var
	fids := make([]int, nf)
	for i := 0; i < nf; i++ {
		fids[i] = vInt(fmt.Sprintf("fid%d", i), 10, 13)
		fields = append(fields, types.NewField(token.NoPos, nil, fmt.Sprintf("F%d", i), vType(fids[i]), false))
	}
	pkg := types.NewPackage("example.com/h", "h")
	st := types.NewStruct(fields, nil)
	named := vTypeU(1, st)
	tn := types.NewTypeName(token.NoPos, pkg, "S", named)
	p, errs := processStructLiteralProvider(new(token.FileSet), tn)
	dup := false
	for i := 0; i < nf; i++ {
		for j := 0; j < i; j++ {
			dup = vOr(dup, fids[i] == fids[j])
		}
	}
	vA("C09", vIff(len(errs) > 0, dup), "a struct provider is rejected iff two selected fields have identical types")
	if len(errs) == 0 {
		vA("C12", p.IsStruct && len(p.Out) == 2 && p.Out[0] == named, "struct provider provides S and *S")
		ptr, isPtr := p.Out[1].(*types.Pointer)
		vA("C12", isPtr && ptr.Elem() == named, "second output is the pointer to the struct")
		vA("C12", len(p.Args) == nf, "all fields are inputs")
		for i := 0; i < nf; i++ {
			vA("C12", p.Args[i].FieldName == fmt.Sprintf("F%d", i) && vTypeID(p.Args[i].Type) == fids[i], "inputs are the fields in order")
		}
		vCover("structlit-accepted")
	} else {
		vCover("structlit-dup")
	}
}

// H_inject: gen.inject on a symbolic graph.
func H_inject() {
	kinds := decodeSkeleton(vParam("skeleton", 1167))
	K := vParam("K", 2)
	g := buildGraph(kinds, K, 0, false)
	b := g.materialise()
	hasErr := make([]bool, g.N)
	hasCleanup := make([]bool, g.N)
	for k, kind := range kinds {
		if kind == nkFunc {
			hasErr[k] = vBool(fmt.Sprintf("hasErr%d", k))
			hasCleanup[k] = vBool(fmt.Sprintf("hasCleanup%d", k))
			p := b.items[k].(*Provider)
			p.HasErr, p.HasCleanup = hasErr[k], hasCleanup[k]
		}
	}
	var errs []error
	b.imp.providerMap, b.imp.srcMap, errs = buildProviderMap(b.fset, b.hasher, b.imp)
	if len(errs) > 0 {
		vPrune()
	}
	b.set.Imports = []*ProviderSet{b.imp}
	b.set.providerMap, b.set.srcMap, errs = buildProviderMap(b.fset, b.hasher, b.set)
	if len(errs) > 0 {
		vPrune()
	}
	// well-formed graphs only: complete and the imported set is used
	impUsed := false
	for k := 0; k < g.N; k++ {
		if g.kinds[k] != nkGiven {
			impUsed = vOr(impUsed, vOr(g.need1[k], g.need2[k]))
		}
	}
	vAssume(vAnd(vNot(g.neededMissing()), impUsed))

	// injector signature: result type is the (symbolic) out; result shape by case split
	shape := vConc(vInt("shape", 0, 3))
	sigErr := shape == 1 || shape == 3
	sigCleanup := shape == 2 || shape == 3
	// the result type needs a concrete underlying kind for zeroValue: a struct
	outT := vTypeU(g.out, types.NewStruct(nil, nil))
	res := []*types.Var{types.NewVar(token.NoPos, nil, "", outT)}
	if sigCleanup {
		res = append(res, types.NewVar(token.NoPos, nil, "", types.NewSignature(nil, nil, nil, false)))
	}
	if sigErr {
		res = append(res, types.NewVar(token.NoPos, nil, "", errorType))
	}
	sig := types.NewSignature(nil, b.given, types.NewTuple(res...), false)

	pkg := &packages.Package{PkgPath: "example.com/inj", Name: "inj", Fset: b.fset, Types: types.NewPackage("example.com/inj", "inj")}
	gg := newGen(pkg)
	// printing of value expressions (go/printer) is not the subject here
	vStub("(*github.com/google/wire/internal/wire.gen).writeAST", func(g *gen, info *types.Info, node ast.Node) { g.p("<expr>") })
	errs = gg.inject(token.NoPos, "inject", sig, b.set, nil)

	needErr, needCleanup := false, false
	for k, kind := range kinds {
		if kind == nkFunc {
			needErr = vOr(needErr, vAnd(g.need1[k], hasErr[k]))
			needCleanup = vOr(needCleanup, vAnd(g.need1[k], hasCleanup[k]))
		}
	}
	wantReject := vOr(vAnd(needErr, !sigErr), vAnd(needCleanup, !sigCleanup))
	vA("C03,C09", vImplies(wantReject, len(errs) > 0), "an injector that cannot return the error / cleanup of a provider it must call is rejected")
	vA("C09,C10", vImplies(len(errs) > 0, wantReject), "an injector declaring error / cleanup results it does not need is accepted")
	if len(errs) > 0 {
		vA("C06", gg.buf.Len() == 0, "nothing is emitted for a rejected injector")
		vCover("inject-rejected")
		return
	}
	vCover("inject-accepted")
	text := vSinkText(&gg.buf)
	vNote(text)
	vA("C01", strings.Contains(text, "func inject("), "the injector is emitted under its own name")
	for k, kind := range kinds {
		if kind != nkFunc {
			continue
		}
		cnt := strings.Count(text, nodeName(k)+"(")
		if vConcBool(g.need1[k]) {
			vA("C02", cnt == 1, "a needed provider is called exactly once in the emitted injector")
			if vConcBool(hasErr[k]) {
				vCover("emitted-error-branch")
			}
		} else {
			vA("C02", cnt == 0, "a provider the result does not depend on is not called")
		}
	}
}
