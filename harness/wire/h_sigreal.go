//go:build verif

package wire

// H_sig_real: processFuncProvider / processStructLiteralProvider on real
// go/types parameter and field types drawn from a pool that contains types
// that are identical but spelled differently (byte/uint8, rune/int32,
// []byte/[]uint8, func types differing in parameter names, any/interface{})
// and types that are similar but distinct. Oracle: types.Identical. C09.

import (
	"fmt"
	"go/token"
	"go/types"
)

func realTypePool() []types.Type {
	str := types.Typ[types.String]
	errT := types.Universe.Lookup("error").Type()
	fn := func(pname string) types.Type {
		return types.NewSignature(nil, types.NewTuple(types.NewVar(token.NoPos, nil, pname, str)), types.NewTuple(types.NewVar(token.NoPos, nil, "", errT)), false)
	}
	pkg := types.NewPackage("example.com/h", "h")
	myInt := types.NewNamed(types.NewTypeName(token.NoPos, pkg, "MyInt", nil), types.Typ[types.Int], nil)
	return []types.Type{
		types.Typ[types.Uint8],                       // 0
		types.Universe.Lookup("byte").Type(),         // 1  identical to 0
		types.Typ[types.Int32],                       // 2
		types.Universe.Lookup("rune").Type(),         // 3  identical to 2
		types.NewSlice(types.Typ[types.Uint8]),       // 4
		types.NewSlice(types.Universe.Lookup("byte").Type()), // 5 identical to 4
		fn("req"),                                    // 6
		fn("resp"),                                   // 7  identical to 6
		types.NewInterfaceType(nil, nil),             // 8
		types.Universe.Lookup("any").Type(),          // 9  identical to 8 (alias)
		types.Typ[types.Int],                         // 10
		myInt,                                        // 11 distinct from 10
		types.NewPointer(myInt),                      // 12
		types.NewArray(types.Typ[types.Uint8], 4),    // 13 distinct from 4
	}
}

func H_sig_real() {
	pool := realTypePool()
	np := vConc(vInt("nparams", 2, 3))
	idx := make([]int, np)
	var pvars []*types.Var
	for i := 0; i < np; i++ {
		idx[i] = vConc(vInt(fmt.Sprintf("ptype%d", i), 0, len(pool)-1))
		pvars = append(pvars, types.NewVar(token.NoPos, nil, fmt.Sprintf("p%d", i), pool[idx[i]]))
	}
	dup := false
	for i := 0; i < np; i++ {
		for j := 0; j < i; j++ {
			if types.Identical(pool[idx[i]], pool[idx[j]]) {
				dup = true
			}
		}
	}
	pkg := types.NewPackage("example.com/h", "h")
	res := types.NewNamed(types.NewTypeName(token.NoPos, pkg, "R", nil), types.NewStruct(nil, nil), nil)
	sig := types.NewSignature(nil, types.NewTuple(pvars...), types.NewTuple(types.NewVar(token.NoPos, nil, "", res)), false)
	fn := types.NewFunc(token.NoPos, pkg, "NewR", sig)
	_, errs := processFuncProvider(new(token.FileSet), fn)
	vA("C09", (len(errs) > 0) == dup, "a provider function is rejected exactly when two parameters have identical types, however the types are spelled")
	// the same for the fields of a struct provider
	var fields []*types.Var
	for i := 0; i < np; i++ {
		fields = append(fields, types.NewField(token.NoPos, pkg, fmt.Sprintf("F%d", i), pool[idx[i]], false))
	}
	st := types.NewNamed(types.NewTypeName(token.NoPos, pkg, "S", nil), types.NewStruct(fields, nil), nil)
	_, errs2 := processStructLiteralProvider(new(token.FileSet), st.Obj())
	vA("C09", (len(errs2) > 0) == dup, "a struct provider is rejected exactly when two fields have identical types, however the types are spelled")
	if dup {
		vCover("dup")
	} else {
		vCover("nodup")
	}
}
