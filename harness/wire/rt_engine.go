//go:build verif

package wire

import "go/types"

// Bodies are never executed: gosym intercepts these by name.

func vInt(name string, lo, hi int) int                { panic("intrinsic") }
func vBool(name string) bool                          { panic("intrinsic") }
func vByte(name string, lo, hi byte) byte             { panic("intrinsic") }
func vStr(name string, n int, lo, hi byte) string     { panic("intrinsic") }
func vAssume(c bool)                                  { panic("intrinsic") }
func vAssert(c bool, msg string)                      { panic("intrinsic") }
func vAssertClass(c bool, msg, class string)          { panic("intrinsic") }
func vAnd(a, b bool) bool                             { panic("intrinsic") }
func vOr(a, b bool) bool                              { panic("intrinsic") }
func vImplies(a, b bool) bool                         { panic("intrinsic") }
func vIff(a, b bool) bool                             { panic("intrinsic") }
func vNot(a bool) bool                                { panic("intrinsic") }
func vIte(c bool, a, b int) int                       { panic("intrinsic") }
func vIteB(c bool, a, b bool) bool                    { panic("intrinsic") }
func vEqStr(a, b string) bool                         { panic("intrinsic") }
func vCover(label string)                             { panic("intrinsic") }
func vNote(s string)                                  { panic("intrinsic") }
func vParam(name string, def int) int                 { panic("intrinsic") }
func vStub(name string, fn interface{})               { panic("intrinsic") }
func vUnstub(name string)                             { panic("intrinsic") }
func vConc(x int) int                                 { panic("intrinsic") }
func vConcBool(x bool) bool                           { panic("intrinsic") }
func vEngine() bool                                   { panic("intrinsic") }
func vPrune()                                         { panic("intrinsic") }
func vStepBudget(n int, class, msg string)             { panic("intrinsic") }
func vStepBudgetEnd()                                 { panic("intrinsic") }
func vSteps() int                                     { panic("intrinsic") }
func vSinkText(p interface{}) string                  { panic("intrinsic") }

// vType returns the abstract type with the given id.
func vType(id int) types.Type { return &vAbs{id: id} }

// vTypeU returns an abstract named type with an explicit underlying type.
func vTypeU(id int, under types.Type) types.Type { return &vAbs{id: id, under: under} }

// vTypeID returns the id of an abstract type.
func vTypeID(t types.Type) int { return t.(*vAbs).id }

// vSetupGlobals stands in for the package's init (not run by the engine).
func vSetupGlobals() {
	errorType = vType(vIDError)
	cleanupType = types.NewSignature(nil, nil, nil, false)
}
