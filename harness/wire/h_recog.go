//go:build verif

package wire

// H_recog_*: the marker-call recognisers (processStructProvider, processBind,
// bindShouldUsePointer, processFieldsOf, processExpr, objectCache.get,
// qualifiedIdentObject, structArgType) on every way of writing their
// arguments that type-checks, built from real go/ast nodes and real go/types
// objects (go/types' own init is interpreted). C20: no shape may panic, every
// refusal is a positioned *wireErr; a shape that is accepted must yield a
// usable result (C12/C11).

import (
	"context"
	"fmt"
	"go/ast"
	"go/token"
	"go/types"

	"golang.org/x/tools/go/packages"
)

type recogEnv struct {
	info    *types.Info
	pkg     *types.Package
	wirePkg *types.Package
	S       *types.Named // struct{ A int; B string }
	I       *types.Named // interface{}
	N       *types.Named // named int
	G       *types.Named // a second named struct, playing an instantiated generic
	C       *types.Named // struct{} with method M(): implements I
	J, K    *types.Named // interfaces: J lacks M, K has M and more
	E       *types.Named // interface{ I }: methods only through an embedded interface
	S1      *types.Named // struct{ A int }
	S3      *types.Named // struct{ A int; _u string; Ünï int }: field names "*" must not skip
	fset    *token.FileSet
}

func newRecogEnv() *recogEnv {
	e := &recogEnv{fset: new(token.FileSet)}
	e.info = &types.Info{
		Types: map[ast.Expr]types.TypeAndValue{},
		Uses:  map[*ast.Ident]types.Object{},
		Defs:  map[*ast.Ident]types.Object{},
	}
	e.pkg = types.NewPackage("example.com/user", "user")
	e.wirePkg = types.NewPackage("github.com/google/wire", "wire")
	e.wirePkg.Scope().Insert(types.NewVar(token.NoPos, e.wirePkg, "bindToUsePointer", types.Typ[types.Bool]))
	st := types.NewStruct([]*types.Var{
		types.NewField(token.NoPos, e.pkg, "A", types.Typ[types.Int], false),
		types.NewField(token.NoPos, e.pkg, "B", types.Typ[types.String], false),
	}, nil)
	e.S = types.NewNamed(types.NewTypeName(token.NoPos, e.pkg, "S", nil), st, nil)
	e.S1 = types.NewNamed(types.NewTypeName(token.NoPos, e.pkg, "S1", nil), types.NewStruct([]*types.Var{types.NewField(token.NoPos, e.pkg, "A", types.Typ[types.Int], false)}, nil), nil)
	e.S3 = types.NewNamed(types.NewTypeName(token.NoPos, e.pkg, "S3", nil), types.NewStruct([]*types.Var{
		types.NewField(token.NoPos, e.pkg, "A", types.Typ[types.Int], false),
		types.NewField(token.NoPos, e.pkg, "_u", types.Typ[types.String], false),
		types.NewField(token.NoPos, e.pkg, "Ünï", types.Typ[types.Bool], false),
	}, nil), nil)
	e.G = types.NewNamed(types.NewTypeName(token.NoPos, e.pkg, "G", nil), st, nil)
	msig := types.NewSignature(nil, nil, nil, false)
	iface := types.NewInterfaceType([]*types.Func{types.NewFunc(token.NoPos, e.pkg, "M", msig)}, nil)
	iface.Complete()
	e.I = types.NewNamed(types.NewTypeName(token.NoPos, e.pkg, "I", nil), iface, nil)
	// J is an interface that does not implement I; K has I's method and one more (implements I)
	jface := types.NewInterfaceType([]*types.Func{types.NewFunc(token.NoPos, e.pkg, "Other", msig)}, nil)
	jface.Complete()
	e.J = types.NewNamed(types.NewTypeName(token.NoPos, e.pkg, "J", nil), jface, nil)
	kface := types.NewInterfaceType([]*types.Func{types.NewFunc(token.NoPos, e.pkg, "M", msig), types.NewFunc(token.NoPos, e.pkg, "Extra", msig)}, nil)
	kface.Complete()
	e.K = types.NewNamed(types.NewTypeName(token.NoPos, e.pkg, "K", nil), kface, nil)
	// E consists of an embedded interface only: interface{ I }
	eface := types.NewInterfaceType(nil, []types.Type{e.I})
	eface.Complete()
	e.E = types.NewNamed(types.NewTypeName(token.NoPos, e.pkg, "E", nil), eface, nil)
	// C implements I with a value receiver
	e.C = types.NewNamed(types.NewTypeName(token.NoPos, e.pkg, "C", nil), types.NewStruct(nil, nil), nil)
	recv := types.NewVar(token.NoPos, e.pkg, "c", e.C)
	e.C.AddMethod(types.NewFunc(token.NoPos, e.pkg, "M", types.NewSignature(recv, nil, nil, false)))
	e.N = types.NewNamed(types.NewTypeName(token.NoPos, e.pkg, "N", nil), types.Typ[types.Int], nil)
	return e
}

func (e *recogEnv) ident(name string, obj types.Object) *ast.Ident {
	id := ast.NewIdent(name)
	if obj != nil {
		e.info.Uses[id] = obj
	}
	return id
}

func (e *recogEnv) typed(x ast.Expr, t types.Type) ast.Expr {
	e.info.Types[x] = types.TypeAndValue{Type: t}
	return x
}

func (e *recogEnv) typeIdent(n *types.Named) *ast.Ident { return e.ident(n.Obj().Name(), n.Obj()) }

// wireFun returns the callee expression for a marker function: wire.Name, or
// plain Name under a dot import.
func (e *recogEnv) wireFun(name string, dot bool) ast.Expr {
	fn := types.NewFunc(token.NoPos, e.wirePkg, name, types.NewSignature(nil, nil, nil, false))
	if dot {
		return e.ident(name, fn)
	}
	pn := types.NewPkgName(token.NoPos, e.pkg, "wire", e.wirePkg)
	return &ast.SelectorExpr{X: e.ident("wire", pn), Sel: e.ident(name, fn)}
}

// ptrExpr draws one way of writing an expression of type *T.
// what: 0 named struct S, 1 pointer to S (so **S), 2 interface I, 3 named int N, 4 anonymous struct, 5 "generic" G
func (e *recogEnv) ptrExpr(tag string, what int) (ast.Expr, types.Type) {
	var elem types.Type
	var tyExpr ast.Expr
	switch what {
	case 0:
		elem, tyExpr = e.S, e.typeIdent(e.S)
	case 1:
		elem, tyExpr = types.NewPointer(e.S), &ast.StarExpr{X: e.typeIdent(e.S)}
	case 2:
		elem, tyExpr = e.I, e.typeIdent(e.I)
	case 3:
		elem, tyExpr = e.N, e.typeIdent(e.N)
	case 4:
		elem = types.NewStruct([]*types.Var{types.NewField(token.NoPos, e.pkg, "A", types.Typ[types.Int], false)}, nil)
		tyExpr = &ast.StructType{Fields: &ast.FieldList{}}
	case 10:
		elem, tyExpr = e.S1, e.typeIdent(e.S1)
	case 13:
		elem, tyExpr = e.S3, e.typeIdent(e.S3)
	case 11:
		elem, tyExpr = types.NewPointer(e.N), &ast.StarExpr{X: e.typeIdent(e.N)}
	case 12:
		elem, tyExpr = e.E, e.typeIdent(e.E)
	case 8:
		elem, tyExpr = e.J, e.typeIdent(e.J)
	case 9:
		elem, tyExpr = e.K, e.typeIdent(e.K)
	case 6:
		elem, tyExpr = e.C, e.typeIdent(e.C)
	case 7:
		elem, tyExpr = types.NewPointer(e.C), &ast.StarExpr{X: e.typeIdent(e.C)}
	default:
		elem, tyExpr = e.G, &ast.IndexExpr{X: e.typeIdent(e.G), Index: e.ident("int", types.Universe.Lookup("int"))}
	}
	pt := types.NewPointer(elem)
	form := vConc(vInt(tag+"_form", 0, vParam("maxform", 6)))
	var x ast.Expr
	switch form {
	case 0: // new(T)
		x = &ast.CallExpr{Fun: e.ident("new", types.Universe.Lookup("new")), Args: []ast.Expr{tyExpr}}
	case 1: // new(pkg.T)
		if what != 0 && what != 2 && what != 3 && what != 6 && what != 8 && what != 9 && what != 10 && what != 12 && what != 13 {
			vPrune()
		}
		other := types.NewPkgName(token.NoPos, e.pkg, "user2", e.pkg)
		n := elem.(*types.Named)
		x = &ast.CallExpr{Fun: e.ident("new", types.Universe.Lookup("new")), Args: []ast.Expr{&ast.SelectorExpr{X: e.ident("user2", other), Sel: e.typeIdent(n)}}}
	case 2: // &T{} (composite literals exist for struct types only here)
		if what != 0 && what != 4 && what != 5 && what != 6 && what != 10 && what != 13 {
			vPrune()
		}
		x = &ast.UnaryExpr{Op: token.AND, X: &ast.CompositeLit{Type: tyExpr}}
	case 3: // a variable of type *T
		x = e.ident("ptrVar", types.NewVar(token.NoPos, e.pkg, "ptrVar", pt))
	case 4: // (*T)(nil)
		x = &ast.CallExpr{Fun: &ast.ParenExpr{X: &ast.StarExpr{X: tyExpr}}, Args: []ast.Expr{e.ident("nil", types.Universe.Lookup("nil"))}}
	case 5: // (new(T))
		x = &ast.ParenExpr{X: &ast.CallExpr{Fun: e.ident("new", types.Universe.Lookup("new")), Args: []ast.Expr{tyExpr}}}
	default: // pkg.PtrVar
		other := types.NewPkgName(token.NoPos, e.pkg, "user2", e.pkg)
		x = &ast.SelectorExpr{X: e.ident("user2", other), Sel: e.ident("PtrVar", types.NewVar(token.NoPos, e.pkg, "PtrVar", pt))}
	}
	return e.typed(x, pt), pt
}

// fieldArg: a field-name argument: string literal, or a string constant identifier.
func (e *recogEnv) fieldArg(tag string) ast.Expr {
	switch vConc(vInt(tag+"_farg", 0, 4)) {
	case 0:
		return e.typed(&ast.BasicLit{Kind: token.STRING, Value: `"A"`}, types.Typ[types.String])
	case 1:
		return e.typed(&ast.BasicLit{Kind: token.STRING, Value: `"*"`}, types.Typ[types.String])
	case 2:
		return e.typed(&ast.BasicLit{Kind: token.STRING, Value: `"Nope"`}, types.Typ[types.String])
	case 3:
		c := types.NewConst(token.NoPos, e.pkg, "FieldName", types.Typ[types.String], nil)
		return e.typed(e.ident("FieldName", c), types.Typ[types.String])
	default:
		return e.typed(&ast.BinaryExpr{X: &ast.BasicLit{Kind: token.STRING, Value: `"A"`}, Op: token.ADD, Y: &ast.BasicLit{Kind: token.STRING, Value: `""`}}, types.Typ[types.String])
	}
}

func checkErrs(errs []error) {
	for _, err := range errs {
		_, ok := err.(*wireErr)
		vA("C20", ok, "every refusal of a marker call is a positioned error")
	}
}

func H_recog_struct() {
	e := newRecogEnv()
	what := []int{0, 1, 2, 3, 4, 5, 10, 13}[vConc(vInt("what", 0, 7))]
	arg0, _ := e.ptrExpr("a0", what)
	args := []ast.Expr{arg0}
	nf := vConc(vInt("nfields", 0, 3))
	for i := 0; i < nf; i++ {
		args = append(args, e.fieldArg(fmt.Sprintf("f%d", i)))
	}
	call := &ast.CallExpr{Fun: e.wireFun("Struct", false), Args: args}
	p, err := processStructProvider(e.fset, e.info, call)
	if err != nil {
		checkErrs([]error{err})
		vCover("struct-refused")
		return
	}
	vCover("struct-accepted")
	vA("C20,C12", p != nil && p.Pkg != nil && p.Name != "", "an accepted wire.Struct names the struct type it constructs")
	// the name list: nothing, or "*" alone, or names of fields written as string literals, each once; "*"
	// next to other names, unknown names, constants and concatenations are refused (every offered struct has
	// a field A; "A" twice selects one field twice)
	isLit := func(x ast.Expr, v string) bool {
		l, ok := x.(*ast.BasicLit)
		return ok && l.Value == v
	}
	namesOK := nf == 0 || (nf == 1 && (isLit(args[1], `"A"`) || isLit(args[1], `"*"`)))
	vA("C12", namesOK, "wire.Struct accepts only \"*\" alone or a list of existing field names given as literals")
	if nf == 1 && isLit(args[1], `"*"`) {
		vA("C12", len(p.Args) == p.Out[0].Underlying().(*types.Struct).NumFields(), "\"*\" selects every field (none of the offered structs has a prevented field)")
	}
	if nf == 0 {
		vA("C12", len(p.Args) == 0, "no names: no field is set")
	}
	if p != nil && p.Pkg != nil {
		vA("C12", what == 0 || what == 5 || what == 10 || what == 13, "only a pointer to a named struct type is accepted")
		vA("C12", p.Name == "S" || p.Name == "G" || p.Name == "S1" || p.Name == "S3", "the provider is named after the struct type")
		vA("C12", p.IsStruct && len(p.Out) == 2, "struct provider provides S and *S")
	}
}

func H_recog_bind() {
	e := newRecogEnv()
	dot := vConcBool(vBool("dotImport"))
	n := vConc(vInt("nargs", 0, 3))
	var args []ast.Expr
	whats := make([]int, n)
	for i := 0; i < n; i++ {
		whats[i] = []int{0, 1, 2, 3, 6, 7, 8, 9, 12}[vConc(vInt(fmt.Sprintf("what%d", i), 0, 8))]
		var a ast.Expr
		if i < 2 {
			a, _ = e.ptrExpr(fmt.Sprintf("a%d", i), whats[i])
		} else {
			a = e.typed(e.ident("ptrVar", types.NewVar(token.NoPos, e.pkg, "ptrVar", types.NewPointer(e.S))), types.NewPointer(e.S))
		}
		args = append(args, a)
	}
	call := &ast.CallExpr{Fun: e.wireFun("Bind", dot), Args: args}
	b, err := processBind(e.fset, e.info, call)
	if err != nil {
		checkErrs([]error{err})
		vCover("bind-refused")
		return
	}
	vCover("bind-accepted")
	vA("C11", n == 2 && (whats[0] == 2 || whats[0] == 8 || whats[0] == 9 || whats[0] == 12), "Bind takes exactly two arguments, the first a pointer to an interface")
	// with bindToUsePointer the second argument new(C) / new(*C) denotes C / *C; both implement I (value receiver);
	// interfaces K and E implement I, and I, K, C, *C implement E (same method set as I); nothing implements J or K
	implI := whats[1] == 6 || whats[1] == 7 || whats[1] == 9
	vA("C11", (whats[0] == 2 && (implI || whats[1] == 12)) || (whats[0] == 12 && (implI || whats[1] == 2)), "Bind requires the bound type (concrete or interface) to implement the interface")
	if whats[1] == 9 {
		vCover("bind-interface-to-interface")
	}
	vA("C11", b.Iface != nil && b.Provided != nil && !types.Identical(b.Iface, b.Provided), "an interface is never bound to itself")
}

func H_recog_fieldsof() {
	e := newRecogEnv()
	what := []int{0, 1, 2, 3, 4, 10, 11}[vConc(vInt("what", 0, 6))]
	arg0, _ := e.ptrExpr("a0", what)
	args := []ast.Expr{arg0}
	nf := vConc(vInt("nfields", 0, 3))
	for i := 0; i < nf; i++ {
		args = append(args, e.fieldArg(fmt.Sprintf("f%d", i)))
	}
	call := &ast.CallExpr{Fun: e.wireFun("FieldsOf", false), Args: args}
	fs, err := processFieldsOf(e.fset, e.info, call)
	if err != nil {
		checkErrs([]error{err})
		vCover("fieldsof-refused")
		return
	}
	vCover("fieldsof-accepted")
	vA("C12", what == 0 || what == 1 || what == 4 || what == 10, "FieldsOf accepts a pointer to a struct or to a pointer to a struct")
	vA("C12", len(fs) == nf && nf >= 1, "one field provider per named field")
	for _, f := range fs {
		vA("C12", f.Name == "A" && len(f.Out) == 1+b2i(what == 1), "field providers provide the field type, plus a pointer for pointer-to-struct parents")
	}
}

func b2i(b bool) int {
	if b {
		return 1
	}
	return 0
}

// H_recog_expr: processExpr / objectCache.get on every kind of argument of
// wire.Build / wire.NewSet.
func H_recog_expr() {
	e := newRecogEnv()
	pk := &packages.Package{PkgPath: "example.com/user", Name: "user", Fset: e.fset, Types: e.pkg, TypesInfo: e.info}
	oc := newObjectCache([]*packages.Package{pk})
	// the declaration of a package-level variable: names n, values m, the variable is name number idx
	nNames := vConc(vInt("specNames", 1, 2))
	nVals := vConc(vInt("specValues", 0, 2))
	idx := vConc(vInt("specIndex", 0, nNames-1))
	provSetT := types.NewNamed(types.NewTypeName(token.NoPos, e.wirePkg, "ProviderSet", nil), types.NewStruct(nil, nil), nil)
	var theVar *types.Var
	// with one initializer per name: either the variable's own initializer is a wire.NewSet call and the
	// others are not, or the other way round
	ownIsSet := vConcBool(vBool("ownInitializerIsSet"))
	vStub("(*github.com/google/wire/internal/wire.objectCache).varDecl", func(oc *objectCache, obj *types.Var) *ast.ValueSpec {
		spec := &ast.ValueSpec{}
		for i := 0; i < nNames; i++ {
			name := fmt.Sprintf("Set%d", i)
			if i == idx {
				name = obj.Name()
			}
			spec.Names = append(spec.Names, ast.NewIdent(name))
		}
		for i := 0; i < nVals; i++ {
			if nVals == nNames && (i == idx) == ownIsSet {
				// an (empty) provider set
				spec.Values = append(spec.Values, &ast.CallExpr{Fun: e.wireFun("NewSet", false)})
				continue
			}
			// a call of an ordinary function returning provider sets (not a wire marker)
			fn := types.NewFunc(token.NoPos, e.pkg, "makeSets", types.NewSignature(nil, nil, nil, false))
			spec.Values = append(spec.Values, &ast.CallExpr{Fun: e.ident("makeSets", fn)})
		}
		// Go requires len(Values) == len(Names), or exactly one multi-valued call
		if !(nVals == 0 || nVals == nNames || nVals == 1) {
			vPrune()
		}
		return spec
	})
	var x ast.Expr
	kind := vConc(vInt("exprKind", 0, 11))
	switch kind {
	case 0: // package-level variable of type wire.ProviderSet
		theVar = types.NewVar(token.NoPos, e.pkg, "MySet", provSetT)
		x = e.ident("MySet", theVar)
	case 1: // nil
		x = e.ident("nil", types.Universe.Lookup("nil"))
	case 2: // true
		x = e.ident("true", types.Universe.Lookup("true"))
	case 3: // a function
		x = e.ident("NewS", types.NewFunc(token.NoPos, e.pkg, "NewS", types.NewSignature(nil, nil, types.NewTuple(types.NewVar(token.NoPos, nil, "", e.S)), false)))
	case 4: // a type name used as value is not an expression; a constant
		x = e.ident("K", types.NewConst(token.NoPos, e.pkg, "K", types.Typ[types.Int], nil))
	case 5: // struct literal S{}
		x = &ast.CompositeLit{Type: e.typeIdent(e.S)}
	case 6: // literal of a non-struct named type: N(0) is a call; []int{} composite of unnamed type
		x = &ast.CompositeLit{Type: &ast.ArrayType{Elt: e.ident("int", types.Universe.Lookup("int"))}}
	case 7: // call of a user function
		x = &ast.CallExpr{Fun: e.ident("makeSets", types.NewFunc(token.NoPos, e.pkg, "makeSets", types.NewSignature(nil, nil, nil, false)))}
	case 8: // conversion with a predeclared type: error(nil)
		x = &ast.CallExpr{Fun: e.ident("error", types.Universe.Lookup("error")), Args: []ast.Expr{e.ident("nil", types.Universe.Lookup("nil"))}}
	case 9: // call of a function value expression: (f)()
		x = &ast.CallExpr{Fun: &ast.ParenExpr{X: e.ident("makeSets", types.NewFunc(token.NoPos, e.pkg, "makeSets", types.NewSignature(nil, nil, nil, false)))}}
	case 10: // basic literal
		x = &ast.BasicLit{Kind: token.INT, Value: "1"}
	default: // unknown wire function
		x = &ast.CallExpr{Fun: e.wireFun("NoSuchMarker", vConcBool(vBool("dot")))}
	}
	if vConcBool(vBool("paren")) {
		x = &ast.ParenExpr{X: x}
	}
	item, errs := oc.processExpr(e.info, "example.com/user", x, "")
	if len(errs) > 0 {
		checkErrs(errs)
		vA("C10", !(kind == 0 && nVals == nNames && ownIsSet), "a variable initialised with wire.NewSet(...) is accepted whatever its position in the declaration")
		vCover("expr-refused")
		return
	}
	vCover("expr-accepted")
	vA("C20", item != nil, "an accepted item is a Wire structure")
	vA("C20,C06", kind == 3 || kind == 5 || (kind == 0 && nVals == nNames && ownIsSet), "only providers, sets and marker calls are accepted; a variable is read through its own initializer")
	if kind == 0 {
		_, isSet := item.(*ProviderSet)
		vA("C10", isSet, "a provider-set variable yields its provider set")
		vCover("var-set-accepted")
	}
}


// H_recog_ivalue: wire.InterfaceValue / wire.Value on every kind of value argument.
func H_recog_ivalue() {
	e := newRecogEnv()
	useValue := vConcBool(vBool("plainValue"))
	what := []int{2, 0, 8}[vConc(vInt("what0", 0, 2))]
	var args []ast.Expr
	if !useValue {
		a0, _ := e.ptrExpr("a0", what)
		args = append(args, a0)
	}
	var val ast.Expr
	vkind := vConc(vInt("valueKind", 0, 4))
	switch vkind {
	case 0: // nil
		val = e.typed(e.ident("nil", types.Universe.Lookup("nil")), types.Typ[types.UntypedNil])
	case 1: // C{} implements I
		val = e.typed(&ast.CompositeLit{Type: e.typeIdent(e.C)}, e.C)
	case 2: // 1
		val = e.typed(&ast.BasicLit{Kind: token.INT, Value: "1"}, types.Typ[types.Int])
	case 3: // a variable of type C
		val = e.typed(e.ident("cVar", types.NewVar(token.NoPos, e.pkg, "cVar", e.C)), e.C)
	default: // a variable of interface type K
		val = e.typed(e.ident("kVar", types.NewVar(token.NoPos, e.pkg, "kVar", e.K)), e.K)
	}
	args = append(args, val)
	var v *Value
	var err error
	if useValue {
		v, err = processValue(e.fset, e.info, &ast.CallExpr{Fun: e.wireFun("Value", false), Args: args})
	} else {
		v, err = processInterfaceValue(e.fset, e.info, &ast.CallExpr{Fun: e.wireFun("InterfaceValue", false), Args: args})
	}
	if err != nil {
		checkErrs([]error{err})
		vCover("value-refused")
		return
	}
	vCover("value-accepted")
	vA("C13", v != nil && v.Out != nil && v.expr == val, "an accepted value provides the written expression")
	if !useValue {
		vA("C13,C11", what == 2 && (vkind == 1 || vkind == 3 || vkind == 4 || vkind == 0), "InterfaceValue takes a pointer to an interface and a value implementing it")
	} else {
		vA("C13", vkind != 4, "wire.Value refuses values of interface type")
	}
	// the package-level variable Wire will declare for the value must have a valid name and a type
	name := typeVariableName(e.info.TypeOf(val), "", func(name string) string { return "_wire" + export(name) + "Value" }, func(string) bool { return false })
	vA("C14,C01,C13", token.IsIdentifier(name), "the variable declared for a value has a valid identifier as its name")
}

// H_load_vars: the provider-set-variable loop of Load (wire check / wire show)
// on package-level variables of type wire.ProviderSet with every kind of
// initializer. C20: no panic, positioned errors; C19: a set is listed exactly
// when it is well-formed.
func H_load_vars() {
	e := newRecogEnv()
	provSetT := types.NewNamed(types.NewTypeName(token.NoPos, e.wirePkg, "ProviderSet", nil), types.NewStruct(nil, nil), nil)
	nvars := vConc(vInt("nvars", 1, 2))
	initKind := make([]int, nvars)
	var vars []*types.Var
	for i := 0; i < nvars; i++ {
		v := types.NewVar(token.NoPos, e.pkg, fmt.Sprintf("Set%d", i), provSetT)
		vars = append(vars, v)
		e.pkg.Scope().Insert(v)
		initKind[i] = vConc(vInt(fmt.Sprintf("init%d", i), 0, 5))
	}
	fset := token.NewFileSet()
	pk := &packages.Package{PkgPath: "example.com/user", Name: "user", Fset: fset, Types: e.pkg, TypesInfo: e.info}
	vStub("github.com/google/wire/internal/wire.load", func(ctx context.Context, wd string, env []string, tags string, patterns []string) ([]*packages.Package, []error) {
		return []*packages.Package{pk}, nil
	})
	wirePN := types.NewPkgName(token.NoPos, e.pkg, "wire", e.wirePkg)
	vStub("(*github.com/google/wire/internal/wire.objectCache).varDecl", func(oc *objectCache, obj *types.Var) *ast.ValueSpec {
		idx := 0
		for i, v := range vars {
			if v == obj {
				idx = i
			}
		}
		spec := &ast.ValueSpec{Names: []*ast.Ident{ast.NewIdent(obj.Name())}}
		switch initKind[idx] {
		case 0: // wire.NewSet()
			spec.Values = []ast.Expr{&ast.CallExpr{Fun: e.wireFun("NewSet", false)}}
		case 1: // wire.ProviderSet{}
			spec.Values = []ast.Expr{&ast.CompositeLit{Type: &ast.SelectorExpr{X: e.ident("wire", wirePN), Sel: e.ident("ProviderSet", provSetT.Obj())}}}
		case 2: // another provider-set variable (the other one, or itself when there is only one)
			other := vars[(idx+1)%nvars]
			spec.Values = []ast.Expr{e.ident(other.Name(), other)}
		case 3: // the result of an ordinary function
			spec.Values = []ast.Expr{&ast.CallExpr{Fun: e.ident("makeSet", types.NewFunc(token.NoPos, e.pkg, "makeSet", types.NewSignature(nil, nil, nil, false)))}}
		case 4: // no initializer: var S wire.ProviderSet
		default: // a parenthesised set
			spec.Values = []ast.Expr{&ast.ParenExpr{X: &ast.CallExpr{Fun: e.wireFun("NewSet", false)}}}
		}
		return spec
	})
	// alias cycles (var A = B; var B = A) do not type-check in Go: excluded
	if nvars == 2 && initKind[0] == 2 && initKind[1] == 2 {
		vPrune()
	}
	if nvars == 1 && initKind[0] == 2 {
		vPrune()
	}
	info, errs := Load(nil, "/wd", nil, "", []string{"."})
	checkErrs(errs)
	wellFormed := func(i int) bool {
		k := initKind[i]
		if k == 2 {
			k = initKind[(i+1)%nvars]
		}
		return k == 0 || k == 5
	}
	vA("C20", info != nil, "Load returns its findings next to the errors")
	if info == nil {
		return
	}
	for i := 0; i < nvars; i++ {
		_, listed := info.Sets[ProviderSetID{ImportPath: "example.com/user", VarName: fmt.Sprintf("Set%d", i)}]
		vA("C19", listed == wellFormed(i), "a provider-set variable is listed exactly when it is well-formed")
	}
	allOK := true
	for i := 0; i < nvars; i++ {
		allOK = allOK && wellFormed(i)
	}
	vA("C19", (len(errs) == 0) == allOK, "check reports an error exactly when some provider-set variable is not well-formed")
	if len(errs) > 0 {
		vCover("vars-rejected")
	} else {
		vCover("vars-accepted")
	}
}
