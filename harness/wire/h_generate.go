//go:build verif

package wire

// H_generate: the real Generate loop (detectOutputDir, newGen, gen.frame,
// header handling, error funnel) with the loader, the per-package analysis
// and gofmt replaced by nondeterministic stubs; H_load: the real load() with
// packages.Load stubbed to capture the configuration. C17, C18, C16 (base
// name / no absolute path in the frame), C06 (errors suppress output).

import (
	"context"
	"errors"
	"fmt"
	"go/ast"
	"go/parser"
	"go/token"
	"go/types"
	"os"
	"strings"

	"golang.org/x/tools/go/packages"
)

func H_generate() {
	n := vConc(vInt("npkgs", 0, 2))
	loadFails := vBool("loadFails")
	tagsChoice := vConc(vInt("tags", 0, 2))
	tags := []string{"", "foo", "foo bar"}[tagsChoice]
	withHeader := vConcBool(vBool("withHeader"))
	prefix := []string{"", "zz_"}[vConc(vInt("prefix", 0, 1))]
	dirConflict := make([]bool, n)
	noFiles := make([]bool, n)
	analysisFails := make([]bool, n)
	hasInjectors := make([]bool, n)
	fmtFails := make([]bool, n)
	var pkgs []*packages.Package
	for i := 0; i < n; i++ {
		dirConflict[i] = vConcBool(vBool(fmt.Sprintf("dirConflict%d", i)))
		noFiles[i] = vConcBool(vBool(fmt.Sprintf("noFiles%d", i)))
		analysisFails[i] = vBool(fmt.Sprintf("analysisFails%d", i))
		hasInjectors[i] = vBool(fmt.Sprintf("hasInjectors%d", i))
		fmtFails[i] = vBool(fmt.Sprintf("fmtFails%d", i))
		p := &packages.Package{PkgPath: fmt.Sprintf("example.com/p%d", i), Name: fmt.Sprintf("p%d", i), Types: types.NewPackage(fmt.Sprintf("example.com/p%d", i), fmt.Sprintf("p%d", i))}
		if !noFiles[i] {
			p.GoFiles = []string{fmt.Sprintf("/abs/src/p%d/a.go", i), fmt.Sprintf("/abs/src/p%d/wire.go", i)}
			// what go/packages reports when a previous output exists: it carries !wireinject, so under
			// -tags=wireinject it is an ignored file of the package
			p.IgnoredFiles = []string{fmt.Sprintf("/abs/src/p%d/%swire_gen.go", i, prefix), fmt.Sprintf("/abs/src/p%d/other_ignored.go", i)}
			if dirConflict[i] {
				p.GoFiles = append(p.GoFiles, fmt.Sprintf("/abs/elsewhere/p%d/b.go", i))
			}
		}
		pkgs = append(pkgs, p)
	}
	loadCalls := 0
	vStub("github.com/google/wire/internal/wire.load", func(ctx context.Context, wd string, env []string, tg string, patterns []string) ([]*packages.Package, []error) {
		loadCalls++
		vA("C18", tg == tags, "the user's tags reach the loader unchanged")
		if loadFails {
			return nil, []error{errors.New("load failed")}
		}
		return pkgs, nil
	})
	idx := map[*packages.Package]int{}
	for i, p := range pkgs {
		idx[p] = i
	}
	vStub("github.com/google/wire/internal/wire.generateInjectors", func(g *gen, pkg *packages.Package) ([]*ast.File, []error) {
		i := idx[pkg]
		if analysisFails[i] {
			// a failing analysis may already have emitted text for earlier injectors
			g.p("func half() {}\n")
			return nil, []error{errors.New("analysis failed")}
		}
		if hasInjectors[i] {
			g.p("func Inject%d() {}\n", i)
		}
		return nil, nil
	})
	vStub("github.com/google/wire/internal/wire.copyNonInjectorDecls", func(g *gen, files []*ast.File, info *types.Info) {})
	fmtCalls := 0
	vStub("go/format.Source", func(src []byte) ([]byte, error) {
		i := fmtCalls
		fmtCalls++
		_ = i
		// which package is being formatted: find it from the package clause
		for k := 0; k < n; k++ {
			if strings.Contains(string(src), fmt.Sprintf("package p%d\n", k)) && fmtFails[k] {
				return nil, errors.New("gofmt failed")
			}
		}
		if len(src) == 0 {
			return nil, nil // gofmt of an empty source is empty
		}
		return append([]byte("/*fmt*/"), src...), nil
	})

	// Generate must not look at the file system: any read of a path is recorded
	var fsReads []string
	vStub("io/ioutil.ReadFile", func(name string) ([]byte, error) { fsReads = append(fsReads, name); return nil, errors.New("no such file") })
	vStub("os.ReadFile", func(name string) ([]byte, error) { fsReads = append(fsReads, name); return nil, errors.New("no such file") })
	vStub("os.Open", func(name string) (*os.File, error) { fsReads = append(fsReads, name); return nil, errors.New("no such file") })
	vStub("os.Stat", func(name string) (os.FileInfo, error) { fsReads = append(fsReads, name); return nil, errors.New("no such file") })
	vStub("os.Lstat", func(name string) (os.FileInfo, error) { fsReads = append(fsReads, name); return nil, errors.New("no such file") })
	vStub("io/ioutil.ReadDir", func(name string) ([]os.FileInfo, error) { fsReads = append(fsReads, name); return nil, errors.New("no such dir") })
	vStub("os.ReadDir", func(name string) ([]os.DirEntry, error) { fsReads = append(fsReads, name); return nil, errors.New("no such dir") })
	vStub("go/parser.ParseFile", func(fset *token.FileSet, filename string, src interface{}, mode parser.Mode) (*ast.File, error) {
		fsReads = append(fsReads, filename)
		return nil, errors.New("no such file")
	})
	vStub("go/parser.ParseDir", func(fset *token.FileSet, path string, filter func(os.FileInfo) bool, mode parser.Mode) (map[string]*ast.Package, error) {
		fsReads = append(fsReads, path)
		return nil, errors.New("no such dir")
	})
	opts := &GenerateOptions{Tags: tags, PrefixOutputFile: prefix}
	if withHeader {
		// as read by ioutil.ReadFile: a slice with spare capacity
		h := make([]byte, 0, 512)
		opts.Header = append(h, "// HEADER\n"...)
	}
	res, errs := Generate(nil, "/wd", nil, []string{"./..."}, opts)

	vA("C17", vIff(len(errs) > 0, loadFails), "Generate reports load errors and only those as its own errors")
	if len(errs) > 0 {
		vA("C17", res == nil, "no results together with load errors")
		vCover("load-failed")
		return
	}
	vA("C17", len(res) == n, "one result per package")
	for i := 0; i < n && i < len(res); i++ {
		r := res[i]
		vA("C17", r.PkgPath == pkgs[i].PkgPath, "results follow the package order")
		badDir := noFiles[i] || dirConflict[i]
		if badDir {
			vA("C17", len(r.Errs) > 0 && len(r.Content) == 0 && r.OutputPath == "", "a package without a single source directory gets an error and no output")
			vCover("bad-dir")
			continue
		}
		vA("C17", r.OutputPath == fmt.Sprintf("/abs/src/p%d/%swire_gen.go", i, prefix), "the output path is <dir of the package's files>/<prefix>wire_gen.go")
		vA("C06,C17", vImplies(analysisFails[i], vAnd(len(r.Errs) > 0, len(r.Content) == 0)), "analysis errors suppress all output for the package")
		vA("C17", vImplies(vAnd(vNot(analysisFails[i]), vNot(hasInjectors[i])), vAnd(len(r.Errs) == 0, len(r.Content) == 0)), "a package without injectors yields neither output nor error")
		if vConcBool(vAnd(vNot(analysisFails[i]), hasInjectors[i])) {
			txt := string(r.Content)
			vA("C17", len(r.Content) > 0, "a cleanly analysed package with injectors yields content")
			vA("C17", vIff(len(r.Errs) > 0, fmtFails[i]), "only a gofmt failure adds an error to a package that analysed cleanly")
			vA("C18", strings.Contains(txt, "//+build !wireinject\n") || strings.Contains(txt, "//go:build !wireinject\n"), "generated files always carry the !wireinject constraint, whatever the tags")
			vA("C01,C17,C16", strings.Contains(txt, fmt.Sprintf("\npackage p%d\n", i)), "generated file declares the package's own name")
			vA("C17,C16", strings.Contains(txt, fmt.Sprintf("func Inject%d() {}", i)), "each package's content is its own whatever else is processed in the same invocation (results do not share storage)")
			if withHeader {
				// the header leads the file; whether it went through gofmt with the rest is not prescribed
				hdr := "// HEADER\n"
				vA("C17", strings.HasPrefix(txt, hdr) || strings.HasPrefix(txt, "/*fmt*/"+hdr), "the header is prepended verbatim")
			}
			if tags != "" {
				vA("C18", strings.Contains(txt, fmt.Sprintf("gen -tags \"%s\"", tags)), "the go:generate line reproduces the tags")
			}
			vA("C16", !strings.Contains(txt, "/abs/"), "the generated file contains no absolute path")
			vCover("content")
		}
	}
	vA("C18", loadCalls == 1, "one load per Generate")
	for _, r := range fsReads {
		vA("C18", !strings.HasSuffix(r, "wire_gen.go"), "Generate does not read a previous output file (its result cannot depend on it)")
	}
}

// H_load: the build flags given to go/packages.
func H_load() {
	tagsChoice := vConc(vInt("tags", 0, 3))
	tags := []string{"", "foo", "foo bar", "wireinject"}[tagsChoice]
	var seen *packages.Config
	var pats []string
	fail := vBool("packagesLoadFails")
	pkgErr := vBool("packageHasErrors")
	vStub("golang.org/x/tools/go/packages.Load", func(cfg *packages.Config, patterns ...string) ([]*packages.Package, error) {
		seen = cfg
		pats = patterns
		if fail {
			return nil, errors.New("go list failed")
		}
		p := &packages.Package{PkgPath: "example.com/p"}
		if pkgErr {
			p.Errors = []packages.Error{{Msg: "type error"}}
		}
		return []*packages.Package{p}, nil
	})
	pkgs, errs := load(nil, "/wd", []string{"A=B"}, tags, []string{"./...", "example.com/x"})
	vA("C18", seen != nil && len(seen.BuildFlags) >= 1, "load passes build flags")
	if seen == nil || len(seen.BuildFlags) < 1 {
		return
	}
	bf := seen.BuildFlags[0]
	want := "-tags=wireinject"
	if tags != "" {
		want += " " + tags
	}
	vA("C18", bf == want, "analysis always runs with the wireinject tag set first, followed by the user's tags (previous output is invisible)")
	vA("C17,C16", seen.Dir == "/wd" && len(seen.Env) == 1, "working directory and environment are passed through")
	vA("C17", len(pats) == 2 && pats[0] == "pattern=./..." && pats[1] == "pattern=example.com/x", "patterns are passed escaped and in order")
	vA("C17", vIff(len(errs) > 0, vOr(fail, pkgErr)), "load fails exactly when go/packages fails or a package has errors")
	vA("C17", vImplies(len(errs) > 0, pkgs == nil), "no packages are returned together with errors")
	if len(errs) > 0 {
		vCover("load-error")
	} else {
		vCover("load-ok")
	}
}
