//go:build verif

package wire

// Exported constructors for harnesses that live in other packages (cmd/wire).

import (
	"go/token"
	"go/types"

	"golang.org/x/tools/go/types/typeutil"
)

// VerifType returns the abstract type with the given id.
func VerifType(id int) types.Type { return vType(id) }

// VerifTypeID returns the id of an abstract type.
func VerifTypeID(t types.Type) int { return vTypeID(t) }

// VerifNewSet builds a provider set (with its provider map) from parts.
func VerifNewSet(pkgPath, varName string, providers []*Provider, values []*Value, fields []*Field, bindings []*IfaceBinding, imports []*ProviderSet) (*ProviderSet, []error) {
	set := &ProviderSet{PkgPath: pkgPath, VarName: varName, Providers: providers, Values: values, Fields: fields, Bindings: bindings, Imports: imports}
	var errs []error
	set.providerMap, set.srcMap, errs = buildProviderMap(new(token.FileSet), typeutil.MakeHasher(), set)
	if len(errs) > 0 {
		return nil, errs
	}
	return set, nil
}
