//go:build verif

package wire

// Native implementation of the harness intrinsics: inputs come from a replay
// tape (the solver's model), assertions are checked concretely.

import (
	"encoding/json"
	"fmt"
	"go/token"
	"go/types"
	"os"
	"strings"
)

type vTapeT struct {
	Model map[string]int64 `json:"model"`
}

var (
	vTape     vTapeT
	vNames    = map[string]int{}
	vCovers   = map[string]bool{}
	vNotes    []string
	vPool     []types.Type
	vPoolIdx  = map[types.Type]int{}
	vPoolPkg  = types.NewPackage("example.com/vpool", "vpool")
	vParams   = map[string]int{}
)

type vPrunedT struct{}
type vAssertFailed struct{ Msg, Class string }

func vLoadTape() {
	vTape = vTapeT{Model: map[string]int64{}}
	vNames = map[string]int{}
	vCovers = map[string]bool{}
	vNotes = nil
	if p := os.Getenv("VERIF_REPLAY"); p != "" {
		b, err := os.ReadFile(p)
		if err != nil {
			panic(err)
		}
		if err := json.Unmarshal(b, &vTape); err != nil {
			panic(err)
		}
	}
	for _, kv := range strings.Split(os.Getenv("VERIF_PARAMS"), ",") {
		if i := strings.IndexByte(kv, '='); i > 0 {
			var n int
			fmt.Sscanf(kv[i+1:], "%d", &n)
			vParams[kv[:i]] = n
		}
	}
}

func vSanitize(s string) string {
	var sb strings.Builder
	for _, c := range s {
		if c >= 'a' && c <= 'z' || c >= 'A' && c <= 'Z' || c >= '0' && c <= '9' || c == '_' || c == '.' {
			sb.WriteRune(c)
		} else {
			sb.WriteByte('_')
		}
	}
	if sb.Len() == 0 {
		return "v"
	}
	return sb.String()
}

func vFresh(base string) string {
	base = vSanitize(base)
	n := vNames[base]
	vNames[base] = n + 1
	if n == 0 {
		return base
	}
	return fmt.Sprintf("%s__%d", base, n)
}

func vInt(name string, lo, hi int) int {
	n := vFresh(name)
	if lo == hi {
		return lo
	}
	v, ok := vTape.Model[n]
	if !ok {
		return lo
	}
	if int(v) < lo || int(v) > hi {
		panic(vPrunedT{})
	}
	return int(v)
}

func vBool(name string) bool { return vTape.Model[vFresh(name)] != 0 }

func vByte(name string, lo, hi byte) byte {
	v, ok := vTape.Model[vFresh(name)]
	if !ok {
		return lo
	}
	b := byte(v)
	if b < lo || b > hi {
		panic(vPrunedT{})
	}
	return b
}

func vStr(name string, n int, lo, hi byte) string {
	base := vFresh(name)
	buf := make([]byte, n)
	for i := range buf {
		v, ok := vTape.Model[fmt.Sprintf("%s_%d", base, i)]
		if !ok {
			v = int64(lo)
		}
		buf[i] = byte(v)
		if buf[i] < lo || buf[i] > hi {
			panic(vPrunedT{})
		}
	}
	return string(buf)
}

func vAssume(c bool) {
	if !c {
		panic(vPrunedT{})
	}
}

func vAssert(c bool, msg string) {
	if !c {
		panic(vAssertFailed{Msg: msg, Class: msg})
	}
}

func vAssertClass(c bool, msg, class string) {
	if !c {
		panic(vAssertFailed{Msg: msg, Class: class})
	}
}

func vAnd(a, b bool) bool            { return a && b }
func vOr(a, b bool) bool             { return a || b }
func vImplies(a, b bool) bool        { return !a || b }
func vIff(a, b bool) bool            { return a == b }
func vNot(a bool) bool               { return !a }
func vIteB(c bool, a, b bool) bool   { if c { return a }; return b }
func vEqStr(a, b string) bool        { return a == b }
func vCover(label string)            { vCovers[label] = true }
func vNote(s string)                 { vNotes = append(vNotes, s) }
func vStub(name string, fn interface{}) {}
func vUnstub(name string)            {}
func vConc(x int) int                { return x }
func vConcBool(x bool) bool          { return x }
func vEngine() bool                  { return false }
func vPrune()                        { panic(vPrunedT{}) }
func vStepBudget(n int, class, msg string) {}
func vStepBudgetEnd()                    {}
func vSteps() int                    { return 0 }
func vSinkText(p interface{}) string {
	switch w := p.(type) {
	case fmt.Stringer:
		return w.String()
	}
	return ""
}

func vIte(c bool, a, b int) int {
	if c {
		return a
	}
	return b
}

func vParam(name string, def int) int {
	if v, ok := vParams[name]; ok {
		return v
	}
	return def
}

// vType returns element id of a pool of real, pairwise non-identical named
// types; the reserved ids map to the real error and func() types.
func vType(id int) types.Type {
	switch id {
	case vIDError:
		return errorType
	case vIDCleanup:
		return cleanupType
	}
	if id < 0 {
		panic(fmt.Sprintf("vType(%d)", id))
	}
	for len(vPool) <= id {
		i := len(vPool)
		tn := types.NewTypeName(token.NoPos, vPoolPkg, fmt.Sprintf("T%d", i), nil)
		t := types.NewNamed(tn, types.NewStruct(nil, nil), nil)
		vPool = append(vPool, t)
		vPoolIdx[t] = i
	}
	return vPool[id]
}

// vTypeU returns the pool type with the given id after giving it the requested
// underlying type (the engine's vTypeU(id, u) is identical to vType(id), so the
// native twin must be the very same named type).
func vTypeU(id int, under types.Type) types.Type {
	t := vType(id)
	if n, ok := t.(*types.Named); ok {
		n.SetUnderlying(under)
	}
	return t
}

func vTypeID(t types.Type) int {
	if types.Identical(t, errorType) {
		return vIDError
	}
	if types.Identical(t, cleanupType) {
		return vIDCleanup
	}
	if i, ok := vPoolIdx[t]; ok {
		return i
	}
	for i, p := range vPool {
		if types.Identical(p, t) {
			return i
		}
	}
	return -1
}

func vSetupGlobals() {}

var vRegistry = map[string]func(){}

func vRegister(name string, f func()) { vRegistry[name] = f }
