//go:build verif

package wire

// H_solve: the real buildProviderMap, solve, verifyArgsUsed, ProviderSet.For
// run on a provider graph whose edges (every argument type, binding target,
// field parent, injector result) are symbolic. DESIGN.md §3.2, §6 C02/C04/C06/
// C08/C10/C11.
//
// Skeleton (param "skeleton", decimal digits, one per node, DAG order: a node
// may only depend on nodes to its right):
//   1 function provider   2 struct provider (outputs S and *S)
//   3 field of a struct value (1 output)   4 field of a pointer-to-struct (2 outputs)
//   5 interface binding   6 value   7 injector argument
// Type ids: first output of node k is k, second output 100+k; ids N..N+M-1
// have no source ("missing").

import (
	"fmt"
	"go/ast"
	"go/token"
	"go/types"

	"golang.org/x/tools/go/types/typeutil"
)

const (
	nkFunc   = 1
	nkStruct = 2
	nkField  = 3
	nkFieldP = 4
	nkBind   = 5
	nkValue  = 6
	nkGiven  = 7
)

type vGraph struct {
	N, M    int
	kinds   []int
	dep     [][]int // symbolic type ids each node depends on
	twoOut  []bool
	out     int
	place   []int  // -1: direct Build argument; i >= 0: member of imported set i
	nsets   int
	given   []int  // node indices of injector arguments, in tuple order
	need1   []bool
	need2   []bool
	pkg     *types.Package
}

func decodeSkeleton(sk int) []int {
	var kinds []int
	for d := sk; d > 0; d /= 10 {
		kinds = append([]int{d % 10}, kinds...)
	}
	return kinds
}

// refOK: a reference made by node i must point to the right of i (acyclic by
// construction) and inside the id universe.
func (g *vGraph) refOK(i, r int) bool {
	return vOr(vAnd(r > i, r < g.N+g.M), vAnd(r > 100+i, r < 100+g.N))
}

func (g *vGraph) hasSource(t int) bool {
	acc := false
	for k := 0; k < g.N; k++ {
		acc = vOr(acc, t == k)
		if g.twoOut[k] {
			acc = vOr(acc, t == 100+k)
		}
	}
	return acc
}

func (g *vGraph) isKind(t int, kind int) bool {
	acc := false
	for k := 0; k < g.N; k++ {
		if g.kinds[k] == kind {
			acc = vOr(acc, t == k)
			if g.twoOut[k] {
				acc = vOr(acc, t == 100+k)
			}
		}
	}
	return acc
}

// resolve follows an interface binding to its concrete type.
func (g *vGraph) resolve(t int) int {
	r := t
	for k := 0; k < g.N; k++ {
		if g.kinds[k] == nkBind {
			r = vIte(t == k, g.dep[k][0], r)
		}
	}
	return r
}

func (g *vGraph) computeNeeded() {
	g.need1 = make([]bool, g.N)
	g.need2 = make([]bool, g.N)
	for k := 0; k < g.N; k++ {
		n1 := g.out == k
		n2 := g.out == 100+k
		for j := 0; j < k; j++ {
			nn := vOr(g.need1[j], g.need2[j])
			for _, d := range g.dep[j] {
				n1 = vOr(n1, vAnd(nn, d == k))
				n2 = vOr(n2, vAnd(nn, d == 100+k))
			}
		}
		g.need1[k] = n1
		if g.twoOut[k] {
			g.need2[k] = n2
		} else {
			g.need2[k] = false
		}
	}
}

func (g *vGraph) neededMissing() bool {
	acc := vNot(g.hasSource(g.out))
	for j := 0; j < g.N; j++ {
		nn := vOr(g.need1[j], g.need2[j])
		for _, d := range g.dep[j] {
			acc = vOr(acc, vAnd(nn, vNot(g.hasSource(d))))
		}
	}
	return acc
}

func (g *vGraph) neededID(t int) bool {
	acc := false
	for k := 0; k < g.N; k++ {
		acc = vOr(acc, vAnd(t == k, g.need1[k]))
		acc = vOr(acc, vAnd(t == 100+k, g.need2[k]))
	}
	return acc
}

func nodeName(k int) string { return fmt.Sprintf("n%d", k) }

// buildGraph draws the symbolic graph for the skeleton.
func buildGraph(kinds []int, K, M int, symbolicPlacement bool) *vGraph {
	g := &vGraph{N: len(kinds), M: M, kinds: kinds}
	g.pkg = types.NewPackage("example.com/h", "h")
	g.dep = make([][]int, g.N)
	g.twoOut = make([]bool, g.N)
	g.place = make([]int, g.N)
	g.nsets = 1
	for k, kind := range kinds {
		g.twoOut[k] = kind == nkStruct || kind == nkFieldP
		if kind == nkGiven {
			g.given = append(g.given, k)
		}
	}
	for k, kind := range kinds {
		switch kind {
		case nkFunc, nkStruct:
			ar := vConc(vInt(fmt.Sprintf("arity%d", k), 0, K))
			for s := 0; s < ar; s++ {
				a := vInt(fmt.Sprintf("arg%d_%d", k, s), 0, 100+g.N)
				vAssume(g.refOK(k, a))
				// a provider's parameter types are pairwise distinct (processFuncProvider)
				for _, b := range g.dep[k] {
					vAssume(a != b)
				}
				g.dep[k] = append(g.dep[k], a)
			}
		case nkField, nkFieldP:
			p := vInt(fmt.Sprintf("parent%d", k), 0, 100+g.N)
			vAssume(g.refOK(k, p))
			g.dep[k] = []int{p}
		case nkBind:
			c := vInt(fmt.Sprintf("conc%d", k), 0, 100+g.N)
			vAssume(g.refOK(k, c))
			g.dep[k] = []int{c}
		}
		if symbolicPlacement && kind != nkGiven {
			g.nsets = vParam("direct", 1)
			g.place[k] = vConc(vInt(fmt.Sprintf("place%d", k), -1, g.nsets-1))
		}
	}
	// bindings: the concrete type has a source that is not itself a binding
	// (chained bindings are outside the well-formed space, DESIGN.md C10)
	for k, kind := range kinds {
		if kind == nkBind {
			c := g.dep[k][0]
			vAssume(vAnd(g.hasSource(c), vNot(g.isKind(c, nkBind))))
		}
	}
	g.out = vInt("out", 0, 100+g.N)
	vAssume(vOr(vAnd(g.out >= 0, g.out < g.N+g.M), vAnd(g.out >= 100, g.out < 100+g.N)))
	g.computeNeeded()
	return g
}

type vBuilt struct {
	set    *ProviderSet
	imp    *ProviderSet
	imps   []*ProviderSet
	given  *types.Tuple
	items  []interface{} // per node: *Provider, *Field, *IfaceBinding, *Value or nil
	fset   *token.FileSet
	hasher typeutil.Hasher
}

// materialise turns the graph into Wire's own data structures.
func (g *vGraph) materialise() *vBuilt {
	b := &vBuilt{fset: new(token.FileSet), hasher: typeutil.MakeHasher()}
	b.items = make([]interface{}, g.N)
	var vars []*types.Var
	blank := vParam("blank_args", 0) != 0
	for _, k := range g.given {
		name := nodeName(k)
		if blank {
			name = "_"
		}
		vars = append(vars, types.NewVar(token.NoPos, nil, name, vType(k)))
	}
	b.given = types.NewTuple(vars...)
	top := &ProviderSet{PkgPath: "example.com/h", InjectorArgs: &InjectorArgs{Name: "inject", Tuple: b.given}}
	var imps []*ProviderSet
	for i := 0; i < g.nsets; i++ {
		name := ""
		if vParam("named", 1) != 0 {
			name = fmt.Sprintf("Set%d", i+1)
		}
		imps = append(imps, &ProviderSet{PkgPath: "example.com/h", VarName: name})
	}
	imp := imps[0]
	for k, kind := range g.kinds {
		dst := top
		if g.place[k] >= 0 {
			dst = imps[g.place[k]]
		}
		switch kind {
		case nkFunc, nkStruct:
			p := &Provider{Pkg: g.pkg, Name: nodeName(k), IsStruct: kind == nkStruct, Out: []types.Type{vType(k)}}
			if kind == nkStruct {
				p.Out = append(p.Out, vType(100+k))
			}
			for s, a := range g.dep[k] {
				p.Args = append(p.Args, ProviderInput{Type: vType(a), FieldName: fmt.Sprintf("F%d", s)})
			}
			b.items[k] = p
			dst.Providers = append(dst.Providers, p)
		case nkField, nkFieldP:
			f := &Field{Parent: vType(g.dep[k][0]), Name: nodeName(k), Pkg: g.pkg, Out: []types.Type{vType(k)}}
			if kind == nkFieldP {
				f.Out = append(f.Out, vType(100+k))
			}
			b.items[k] = f
			dst.Fields = append(dst.Fields, f)
		case nkBind:
			ib := &IfaceBinding{Iface: vType(k), Provided: vType(g.dep[k][0])}
			b.items[k] = ib
			dst.Bindings = append(dst.Bindings, ib)
		case nkValue:
			lit := &ast.BasicLit{Kind: token.INT, Value: fmt.Sprintf("%d", k)}
			info := &types.Info{Types: map[ast.Expr]types.TypeAndValue{lit: {Type: vType(k)}}}
			v := &Value{Out: vType(k), expr: lit, info: info}
			b.items[k] = v
			dst.Values = append(dst.Values, v)
		}
	}
	b.set, b.imp, b.imps = top, imp, imps
	return b
}

// inImp: type id t is provided by a member of the imported set.
func (g *vGraph) placedIn(t int, set int) bool {
	acc := false
	for k := 0; k < g.N; k++ {
		if g.kinds[k] == nkGiven || g.place[k] != set {
			continue
		}
		acc = vOr(acc, t == k)
		if g.twoOut[k] {
			acc = vOr(acc, t == 100+k)
		}
	}
	return acc
}

func H_solve() {
	kinds := decodeSkeleton(vParam("skeleton", 1135167))
	K := vParam("K", 2)
	M := vParam("missing", 1)
	placement := vParam("direct", 0) != 0
	g := buildGraph(kinds, K, M, placement)
	b := g.materialise()

	// The imported sets: a binding placed in one needs its concrete type in that same set (C11).
	var errs []error
	impHas := make([]bool, g.nsets)
	for si := 0; si < g.nsets; si++ {
		impBindBad := false
		for k, kind := range g.kinds {
			if kind == nkGiven || g.place[k] != si {
				continue
			}
			impHas[si] = true
			if kind == nkBind {
				impBindBad = vOr(impBindBad, vNot(g.placedIn(g.dep[k][0], si)))
			}
		}
		imp := b.imps[si]
		imp.providerMap, imp.srcMap, errs = buildProviderMap(b.fset, b.hasher, imp)
		vA("C11", vImplies(impBindBad, len(errs) > 0), "nested set: a binding whose concrete type is not provided by that same set is rejected")
		vA("C10,C11", vImplies(len(errs) > 0, impBindBad), "nested set: a set whose bindings all have their concrete type in the same set is accepted")
		if len(errs) > 0 {
			vA("C05,C11", imp.providerMap == nil, "buildProviderMap returns no map when it reports errors")
			vCover("imp-binding-rejected")
			return
		}
		if impHas[si] {
			b.set.Imports = append(b.set.Imports, imp)
		}
	}
	// a binding placed directly needs its concrete type anywhere in the Build set (imports included): always true here
	b.set.providerMap, b.set.srcMap, errs = buildProviderMap(b.fset, b.hasher, b.set)
	vA("C10,C11", len(errs) == 0, "a set whose sources have pairwise distinct types and co-located bindings is accepted by buildProviderMap")

	calls, errs := solve(b.fset, vType(g.out), b.given, b.set)

	// ---- oracle: rejection (C06, C08) ----
	missing := g.neededMissing()
	unused := false
	for si := 0; si < g.nsets; si++ {
		if !impHas[si] {
			continue
		}
		impUsed := false
		for k := 0; k < g.N; k++ {
			if g.kinds[k] != nkGiven && g.place[k] == si {
				impUsed = vOr(impUsed, vOr(g.need1[k], g.need2[k]))
			}
		}
		unused = vOr(unused, vNot(impUsed))
	}
	for k := 0; k < g.N; k++ {
		if g.kinds[k] != nkGiven && g.place[k] < 0 {
			unused = vOr(unused, vNot(vOr(g.need1[k], g.need2[k])))
		}
	}
	vA("C06", vImplies(missing, len(errs) > 0), "a needed type without any source must be rejected")
	vA("C08", vImplies(vAnd(vNot(missing), unused), len(errs) > 0), "a direct Build item that does not contribute must be rejected")
	vA("C10,C08", vImplies(len(errs) > 0, vOr(missing, unused)), "a complete set in which every direct item contributes must be accepted")
	if len(errs) > 0 {
		vA("C06", calls == nil, "no plan is returned together with errors")
		if vConcBool(missing) {
			vCover("rejected-missing")
		} else {
			vCover("rejected-unused")
		}
		return
	}
	vCover("accepted")
	if len(calls) >= 3 {
		vCover("accepted>=3calls")
	}

	// ---- oracle: the plan (C02, C04, C11, C12 planning half) ----
	G := len(g.given)
	var prod []int
	for _, k := range g.given {
		prod = append(prod, k)
	}
	for ci := range calls {
		c := &calls[ci]
		o := vConc(vTypeID(c.out))
		k := o % 100
		second := o >= 100
		vA("C02", k < g.N, "call output is a provided type")
		vA("C02", !second || g.twoOut[k], "call output is a provided type (second output)")
		vA("C02", g.neededID(o), "every planned step is needed by the result (no superfluous call)")
		for cj := 0; cj < ci; cj++ {
			vA("C02", prod[G+cj] != o, "no type is produced twice (each provider called at most once)")
		}
		switch g.kinds[k] {
		case nkFunc, nkStruct:
			p := b.items[k].(*Provider)
			if g.kinds[k] == nkFunc {
				vA("C02", c.kind == funcProviderCall, "function provider planned as a function call")
			} else {
				vA("C02", c.kind == structProvider, "struct provider planned as a struct literal")
				vCover("struct-call")
			}
			vA("C02", c.name == p.Name && c.pkg == p.Pkg, "call names the provider of its output type")
			vA("C02", len(c.args) == len(g.dep[k]), "one argument per parameter")
			vA("C02", len(c.ins) == len(g.dep[k]), "one input type per parameter")
			for s := range c.args {
				vA("C02,C04", c.args[s] >= 0 && c.args[s] < G+ci, "arguments come from injector parameters or earlier steps")
				vA("C02,C11", prod[c.args[s]] == g.resolve(g.dep[k][s]), "each parameter is fed by the source of its type")
				if g.kinds[k] == nkStruct {
					vA("C02", c.fieldNames[s] == p.Args[s].FieldName, "struct field names follow the arguments")
				}
			}
		case nkValue:
			vA("C02", c.kind == valueExpr, "value planned as value expression")
			vCover("value-call")
		case nkField, nkFieldP:
			f := b.items[k].(*Field)
			vA("C02", c.kind == selectorExpr, "field planned as selector")
			vA("C02", c.name == f.Name, "selector names the field")
			vA("C02", len(c.args) == 1, "field step has the parent as only argument")
			vA("C02,C04", c.args[0] >= 0 && c.args[0] < G+ci, "parent comes from an earlier step")
			vA("C12,C02", prod[c.args[0]] == g.resolve(g.dep[k][0]), "field is read from the source of its parent type")
			vA("C12,C02", c.ptrToField == second, "pointer-to-field exactly when the pointer form was requested")
			vCover("field-call")
		default:
			vA("C02,C11", false, "a binding or injector argument must not become a step")
		}
		prod = append(prod, o)
	}
	want := g.resolve(g.out)
	if len(calls) == 0 {
		vA("C02", g.isKind(want, nkGiven), "an injector without steps returns an injector argument of the result type")
		vA("C02", b.set.For(vType(g.out)).IsArg(), "For(result) designates the injector argument")
		vCover("accepted-0calls")
	} else {
		vA("C02", prod[len(prod)-1] == want, "the last step produces the result type")
	}
	// completeness: every needed callable type has its step
	for k := 0; k < g.N; k++ {
		if g.kinds[k] == nkGiven || g.kinds[k] == nkBind {
			continue
		}
		has1, has2 := false, false
		for ci := range calls {
			has1 = vOr(has1, prod[G+ci] == k)
			has2 = vOr(has2, prod[G+ci] == 100+k)
		}
		vA("C02", vIff(has1, g.need1[k]), "a step exists exactly for the needed types")
		vA("C02", vIff(has2, g.need2[k]), "a step exists exactly for the needed types (second output)")
	}
	for k := 0; k < g.N; k++ {
		if g.kinds[k] == nkBind && vConcBool(g.need1[k]) {
			vCover("binding-used")
		}
	}
}
