//go:build verif

package wire

// H_zero: zeroValue on every kind of result type (the real go/types objects:
// the engine interprets go/types' own init so that types.Typ and
// types.Universe are the real tables). C01, C20.

import (
	"go/token"
	"go/types"
)

func H_zero() {
	kind := vConc(vInt("kind", 0, 9))
	named := vConcBool(vBool("named"))
	pkg := types.NewPackage("example.com/h", "h")
	elem := types.Typ[types.Int]
	var under types.Type
	want := "nil"
	switch kind {
	case 0:
		under = types.NewArray(elem, 3)
		want = "{}"
	case 1:
		under = types.NewStruct(nil, nil)
		want = "{}"
	case 2:
		row := vInt("basic", 0, len(types.Typ)-1)
		b := types.Typ[row]
		// result types are typed: Invalid and the untyped kinds cannot be the type of an injector result
		if b.Kind() == types.Invalid || b.Info()&types.IsUntyped != 0 {
			vPrune()
		}
		under = b
		switch {
		case b.Info()&types.IsBoolean != 0:
			want = "false"
		case b.Info()&types.IsNumeric != 0:
			want = "0"
		case b.Info()&types.IsString != 0:
			want = `""`
		default:
			want = "nil" // unsafe.Pointer
		}
	case 3:
		under = types.NewChan(types.SendRecv, elem)
	case 4:
		under = types.NewInterfaceType(nil, nil)
	case 5:
		under = types.NewMap(elem, elem)
	case 6:
		under = types.NewPointer(elem)
	case 7:
		under = types.NewSignature(nil, nil, nil, false)
	case 8:
		under = types.NewSlice(elem)
	case 9:
		under = types.Universe.Lookup("error").Type()
	}
	t := under
	if named && kind != 9 {
		t = types.NewNamed(types.NewTypeName(token.NoPos, pkg, "N", nil), under, nil)
	}
	got := zeroValue(t, func(p *types.Package) string { return p.Name() })
	if want == "{}" {
		vA("C01,C03,C20", len(got) > 2 && got[len(got)-2:] == "{}", "composite zero value is T{}")
	} else {
		vA("C01,C03,C20", got == want, "zero value expression matches the kind of the underlying type (nil for slices, maps, pointers, channels, functions and interfaces)")
	}
	vCover("zero")
}
