//go:build verif

package wire

// H_maporder: gen.frame and gen.nameInFileScope under every iteration order of
// the generator's maps (the engine permutes every `range` over a map with 2..4
// entries by a solver-visible choice: param permute_maps=1). Two generator
// states with equal contents are framed independently; equal text for every
// pair of orders means the text is a function of the contents alone. C16.

import (
	"fmt"
	"go/ast"
	"go/token"
	"go/types"

	"golang.org/x/tools/go/packages"
)

func mapOrderGen(nImp, nAnon, nVal int, rev bool) *gen {
	pkg := &packages.Package{PkgPath: "example.com/inj", Name: "inj", Fset: new(token.FileSet), Types: types.NewPackage("example.com/inj", "inj")}
	g := newGen(pkg)
	imps := []struct {
		path string
		info importInfo
	}{
		{"example.com/b/x", importInfo{name: "x"}},
		{"example.com/a/y", importInfo{name: "y2", differs: true}},
		{"example.com/c/z", importInfo{name: "z"}},
		{"example.com/a/aa", importInfo{name: "aa3", differs: true}},
	}
	anon := []string{"\"example.com/m/side\"", "\"example.com/k/effect\"", "\"example.com/l/more\""}
	vals := []string{"_wireFooValue", "_wireBarValue", "_wireBazValue"}
	order := func(n int) []int {
		var o []int
		for i := 0; i < n; i++ {
			if rev {
				o = append(o, n-1-i)
			} else {
				o = append(o, i)
			}
		}
		return o
	}
	for _, i := range order(nImp) {
		g.imports[imps[i].path] = imps[i].info
	}
	for _, i := range order(nAnon) {
		g.anonImports[anon[i]] = true
	}
	for _, i := range order(nVal) {
		g.values[&ast.BasicLit{Kind: token.INT, Value: fmt.Sprintf("%d", i)}] = vals[i]
	}
	g.p("func Inject() {}\n")
	return g
}

func H_maporder() {
	nImp := vParam("imports", 3)
	nAnon := vParam("anon", 2)
	nVal := vParam("values", 2)
	tags := []string{"", "foo bar"}[vConc(vInt("tags", 0, 1))]
	g1 := mapOrderGen(nImp, nAnon, nVal, false)
	g2 := mapOrderGen(nImp, nAnon, nVal, true)
	t1 := string(g1.frame(tags))
	t2 := string(g2.frame(tags))
	vA("C16", t1 == t2, "the framed file is the same for every iteration order of the import tables")
	vA("C16", len(t1) > 0, "frame produced text")
	for _, name := range []string{"x", "y2", "aa3", "_wireFooValue", "_wireBarValue", "nothere", "inj"} {
		vA("C16,C14", g1.nameInFileScope(name) == g2.nameInFileScope(name), "the collision predicate does not depend on map iteration order")
	}
	vA("C14", g1.nameInFileScope("x") && g1.nameInFileScope("_wireFooValue") && !g1.nameInFileScope("nothere"), "import names and value names are taken, unknown names are free")
	vCover("framed")
}
