//go:build verif

package wire

// H_acyclic: the real verifyAcyclic on a provider map whose every edge is
// symbolic. Oracle (C07): it reports an error iff the graph has a cycle
// (transitive closure computed as terms). H_lattice: diamond lattices with
// exponentially many paths plus one symbolic extra edge; verdict and an
// explicit step bound (termination / no path explosion) for verifyAcyclic and
// solve.

import (
	"fmt"
	"go/token"
	"go/types"

	"golang.org/x/tools/go/types/typeutil"
)

// acyclicGraph builds the provider map for the skeleton. Node k provides type
// k; type N is a type nobody provides (an input). Returns edge terms.
func acyclicGraph(kinds []int, K int) (*typeutil.Map, typeutil.Hasher, [][]bool) {
	N := len(kinds)
	hasher := typeutil.MakeHasher()
	pm := new(typeutil.Map)
	pm.SetHasher(hasher)
	pkg := types.NewPackage("example.com/h", "h")
	edge := make([][]bool, N)
	pts := make([]*ProvidedType, N)
	for k := range edge {
		edge[k] = make([]bool, N)
	}
	for k, kind := range kinds {
		switch kind {
		case nkFunc, nkStruct:
			ar := vConc(vInt(fmt.Sprintf("arity%d", k), 0, K))
			p := &Provider{Pkg: pkg, Name: nodeName(k), IsStruct: kind == nkStruct, Out: []types.Type{vType(k)}}
			for s := 0; s < ar; s++ {
				a := vInt(fmt.Sprintf("arg%d_%d", k, s), 0, N)
				for _, prev := range p.Args {
					vAssume(a != vTypeID(prev.Type))
				}
				p.Args = append(p.Args, ProviderInput{Type: vType(a)})
				for j := 0; j < N; j++ {
					edge[k][j] = vOr(edge[k][j], a == j)
				}
			}
			pts[k] = &ProvidedType{t: vType(k), p: p}
		case nkField, nkFieldP:
			a := vInt(fmt.Sprintf("parent%d", k), 0, N)
			f := &Field{Parent: vType(a), Name: nodeName(k), Pkg: pkg, Out: []types.Type{vType(k)}}
			for j := 0; j < N; j++ {
				edge[k][j] = a == j
			}
			pts[k] = &ProvidedType{t: vType(k), f: f}
		case nkValue:
			pts[k] = &ProvidedType{t: vType(k), v: &Value{Out: vType(k)}}
		case nkGiven:
			pts[k] = &ProvidedType{t: vType(k), a: &InjectorArg{Args: &InjectorArgs{Name: "inject"}, Index: 0}}
		}
	}
	// bindings alias the entry of their concrete type (as buildProviderMap does)
	for k, kind := range kinds {
		if kind != nkBind {
			continue
		}
		c := vConc(vInt(fmt.Sprintf("conc%d", k), 0, N-1))
		if kinds[c] == nkBind {
			vPrune() // chained bindings are outside the well-formed space
		}
		pts[k] = pts[c]
		for j := 0; j < N; j++ {
			edge[k][j] = edge[c][j]
		}
	}
	for k := range kinds {
		pm.Set(vType(k), pts[k])
	}
	return pm, hasher, edge
}

func hasCycleTerm(edge [][]bool) bool {
	N := len(edge)
	reach := make([][]bool, N)
	for i := range reach {
		reach[i] = append([]bool(nil), edge[i]...)
	}
	for k := 0; k < N; k++ {
		for i := 0; i < N; i++ {
			for j := 0; j < N; j++ {
				reach[i][j] = vOr(reach[i][j], vAnd(reach[i][k], reach[k][j]))
			}
		}
	}
	cyc := false
	for i := 0; i < N; i++ {
		cyc = vOr(cyc, reach[i][i])
	}
	return cyc
}

func H_acyclic() {
	kinds := decodeSkeleton(vParam("skeleton", 1111))
	K := vParam("K", 2)
	pm, hasher, edge := acyclicGraph(kinds, K)
	cyc := hasCycleTerm(edge)
	N := len(kinds)
	vStepBudget(4000*(N+1)*(N+1), "C07:step-bound: verifyAcyclic terminates within the step bound", "verifyAcyclic terminates within the step bound (unwinding assertion)")
	errs := verifyAcyclic(pm, hasher)
	vStepBudgetEnd()
	vA("C07", vImplies(cyc, len(errs) > 0), "a provider graph with a cycle must be rejected")
	vA("C07,C10", vImplies(len(errs) > 0, cyc), "an acyclic provider graph must not be reported as cyclic")
	if len(errs) > 0 {
		vCover("cyclic")
	} else {
		vCover("acyclic")
	}
}

// latticeSet builds a diamond lattice: levels 0..D-1 of two providers each;
// both providers of level l depend on both providers of level l+1. The number
// of paths from the top is 2^D. One symbolic extra edge is added to a
// symbolically chosen provider.
func H_lattice() {
	D := vParam("depth", 12)
	N := 2 * D
	pkg := types.NewPackage("example.com/h", "h")
	hasher := typeutil.MakeHasher()
	fset := new(token.FileSet)
	from := vConc(vInt("from", 0, N-1))
	to := vInt("to", 0, N) // N: a type without provider (no extra edge into the graph)
	top := &ProviderSet{PkgPath: "example.com/h"}
	set := &ProviderSet{PkgPath: "example.com/h", VarName: "L"}
	for k := 0; k < N; k++ {
		p := &Provider{Pkg: pkg, Name: nodeName(k), Out: []types.Type{vType(k)}}
		l := k / 2
		if l+1 < D {
			p.Args = []ProviderInput{{Type: vType(2 * (l + 1))}, {Type: vType(2*(l+1) + 1)}}
		}
		// extra edge: provider `from` additionally takes a parameter of type `to`
		// (types N+1+k are distinct dummy inputs so that the parameter list stays distinct)
		extra := vIte(from == k, to, N+1+k)
		p.Args = append(p.Args, ProviderInput{Type: vType(extra)})
		set.Providers = append(set.Providers, p)
	}
	// the extra parameter type must differ from the regular parameters of that provider
	for k := 0; k < N; k++ {
		l := k / 2
		if l+1 < D {
			vAssume(vNot(vAnd(from == k, vOr(to == 2*(l+1), to == 2*(l+1)+1))))
		}
	}
	// inputs: dummy types are injector arguments so that solve can complete
	var vars []*types.Var
	for k := 0; k < N; k++ {
		vars = append(vars, types.NewVar(token.NoPos, nil, fmt.Sprintf("in%d", k), vType(N+1+k)))
	}
	vars = append(vars, types.NewVar(token.NoPos, nil, "inN", vType(N)))
	given := types.NewTuple(vars...)
	top.InjectorArgs = &InjectorArgs{Name: "inject", Tuple: given}
	var errs []error
	set.providerMap, set.srcMap, errs = buildProviderMap(fset, hasher, set)
	vA("C10", len(errs) == 0, "lattice set is accepted by buildProviderMap")
	if len(errs) > 0 {
		return
	}
	// cycle iff the extra edge points to the same or a higher level (towards the top)
	cyc := false
	for k := 0; k < N; k++ {
		for j := 0; j < N; j++ {
			if j/2 <= k/2 { // j reaches k (or j == k) in the lattice
				if j/2 < k/2 || j == k {
					cyc = vOr(cyc, vAnd(from == k, to == j))
				}
			}
		}
	}
	s0 := vSteps()
	vStepBudget(60000*N, "C07:step-bound: verifyAcyclic on a diamond lattice", "verifyAcyclic does not enumerate the exponentially many paths of a diamond lattice (step bound / unwinding assertion)")
	errs = verifyAcyclic(set.providerMap, hasher)
	vStepBudgetEnd()
	st := vSteps() - s0
	vA("C07", vIff(len(errs) > 0, cyc), "lattice with one extra edge: reported iff the edge closes a cycle")
	if len(errs) > 0 {
		vCover("cyclic")
		return
	}
	vCover("acyclic")
	vNote(fmt.Sprintf("verifyAcyclic steps=%d", st))
	top.Imports = []*ProviderSet{set}
	top.providerMap, top.srcMap, errs = buildProviderMap(fset, hasher, top)
	vA("C10", len(errs) == 0, "top set over the lattice is accepted by buildProviderMap")
	if len(errs) > 0 {
		return
	}
	s0 = vSteps()
	vStepBudget(60000*N, "C07:step-bound: solve on a diamond lattice", "solve visits each type once on a diamond lattice (step bound / unwinding assertion)")
	calls, errs := solve(fset, vType(0), given, top)
	vStepBudgetEnd()
	st = vSteps() - s0
	vNote(fmt.Sprintf("solve steps=%d", st))
	vA("C10", len(errs) == 0, "the acyclic, complete lattice is accepted")
	if len(errs) == 0 {
		vA("C02", len(calls) <= N, "each provider of the lattice is planned at most once")
	}
}
