//go:build verif

package wire

// H_bpm: the real buildProviderMap (with bindingConflictError and
// providerSetSrc.trace/description) on a nest of provider sets that holds one
// source of every kind. One or two output slots, chosen symbolically among all
// slots, get a symbolic type id; both bindings have symbolic concrete types.
// Oracle (C05, C10, C11): the nest is rejected iff two source occurrences
// provide the same type or a binding's concrete type is not provided by the
// binding's own set; on rejection no map is returned.

import (
	"fmt"
	"go/token"
	"go/types"

	"golang.org/x/tools/go/types/typeutil"
)

type bpmSlot struct {
	set  int // owning set: 0=T 1=A 2=B 3=C 4=D
	item int // item number (slots of one item are assumed distinct)
	id   int // symbolic type id
	bind bool
}

func H_bpm() {
	nOver := vParam("overrides", 1)
	diamond := vParam("diamond", 0) != 0
	const U = 19 // id universe 0..U-1; base ids are 0..17, 18 is a fresh type

	// ---- base configuration: every slot has its own id
	var slots []bpmSlot
	add := func(set, item int, bind bool) int {
		slots = append(slots, bpmSlot{set: set, item: item, id: len(slots), bind: bind})
		return len(slots) - 1
	}
	sG0 := add(0, 0, false)
	sG1 := add(0, 1, false)
	sPT := add(0, 2, false)
	sVT := add(0, 3, false)
	sBT := add(0, 4, true)
	sSA1 := add(1, 5, false)
	sSA2 := add(1, 5, false)
	sFA := add(1, 6, false)
	sFPB1 := add(2, 7, false)
	sFPB2 := add(2, 7, false)
	sVB := add(2, 8, false)
	sPC := add(3, 9, false)
	sBC := add(3, 10, true)
	sVD := add(4, 11, false)
	sPD := add(4, 12, false)
	sFT := add(0, 13, false)  // a field provider directly in the Build set
	sBA := add(1, 14, true)   // a second binding, in set A
	// optionally (bind2=1) a second binding written in the Build set itself
	bind2 := vParam("bind2", 0) != 0
	sBT2 := -1
	if bind2 {
		sBT2 = add(0, 15, true)
	}
	nSlots := len(slots)

	// ---- symbolic overrides
	for o := 0; o < nOver; o++ {
		j := vInt(fmt.Sprintf("slot%d", o), 0, nSlots-1)
		if bind2 && o == 0 {
			// with the second direct binding the (first) override is spent on that binding's interface:
			// it may coincide with any other source's type, in particular with the first binding's
			vAssume(j == sBT2)
		}
		x := vInt(fmt.Sprintf("id%d", o), 0, U-1)
		for s := range slots {
			slots[s].id = vIte(j == s, x, slots[s].id)
		}
	}
	// the outputs of one item are distinct types (T and *T)
	for s := range slots {
		for t := 0; t < s; t++ {
			if slots[s].item == slots[t].item {
				vAssume(slots[s].id != slots[t].id)
			}
		}
	}
	concT := vInt("concT", 0, U-1)
	concC := vInt("concC", 0, U-1)
	concA := vInt("concA", 0, U-1)
	concT2 := 0
	if bind2 {
		// its concrete type: the Build set's own provider, its own value, or a type nobody provides
		c2 := vInt("concT2", 0, 2)
		concT2 = vIte(c2 == 0, slots[sPT].id, vIte(c2 == 1, slots[sVT].id, U-1))
		vAssume(concT2 != slots[sBT2].id)
		// outside the bound: a binding whose concrete type is the interface of another binding of the same
		// set (Wire resolves those in argument order)
		vAssume(concT2 != slots[sBT].id)
		vAssume(concT != slots[sBT2].id)
	}
	vAssume(concA != slots[sBA].id)
	// a binding never binds an interface to itself (processBind rejects that)
	vAssume(concT != slots[sBT].id)
	vAssume(concC != slots[sBC].id)

	ty := func(s int) types.Type { return vType(slots[s].id) }
	pkg := types.NewPackage("example.com/h", "h")
	fset := new(token.FileSet)
	hasher := typeutil.MakeHasher()

	// injector parameters may be named, blank or unnamed
	argNames := [][2]string{{"g0", "g1"}, {"_", "g1"}, {"_", "_"}, {"", ""}}[vConc(vInt("argNames", 0, 3))]
	given := types.NewTuple(types.NewVar(token.NoPos, nil, argNames[0], ty(sG0)), types.NewVar(token.NoPos, nil, argNames[1], ty(sG1)))
	T := &ProviderSet{PkgPath: "example.com/h", InjectorArgs: &InjectorArgs{Name: "inject", Tuple: given}}
	A := &ProviderSet{PkgPath: "example.com/h", VarName: "A"}
	B := &ProviderSet{PkgPath: "example.com/h", VarName: "B"}
	C := &ProviderSet{PkgPath: "example.com/other", VarName: "C"}
	D := &ProviderSet{PkgPath: "example.com/other", VarName: "D"}

	T.Providers = []*Provider{{Pkg: pkg, Name: "PT", Out: []types.Type{ty(sPT)}}}
	T.Values = []*Value{{Out: ty(sVT)}}
	T.Bindings = []*IfaceBinding{{Iface: ty(sBT), Provided: vType(concT)}}
	if bind2 {
		T.Bindings = append(T.Bindings, &IfaceBinding{Iface: ty(sBT2), Provided: vType(concT2)})
	}
	T.Fields = []*Field{{Parent: vType(U + 3), Name: "FT", Pkg: pkg, Out: []types.Type{ty(sFT)}}}
	A.Bindings = []*IfaceBinding{{Iface: ty(sBA), Provided: vType(concA)}}
	A.Providers = []*Provider{{Pkg: pkg, Name: "SA", IsStruct: true, Out: []types.Type{ty(sSA1), ty(sSA2)}}}
	A.Fields = []*Field{{Parent: vType(U + 1), Name: "FA", Pkg: pkg, Out: []types.Type{ty(sFA)}}}
	B.Fields = []*Field{{Parent: vType(U + 2), Name: "FPB", Pkg: pkg, Out: []types.Type{ty(sFPB1), ty(sFPB2)}}}
	B.Values = []*Value{{Out: ty(sVB)}}
	C.Providers = []*Provider{{Pkg: pkg, Name: "PC", Out: []types.Type{ty(sPC)}}}
	C.Bindings = []*IfaceBinding{{Iface: ty(sBC), Provided: vType(concC)}}
	D.Values = []*Value{{Out: ty(sVD)}}
	D.Providers = []*Provider{{Pkg: pkg, Name: "PD", Out: []types.Type{ty(sPD)}}}

	// which slots each set's closure contains, with multiplicity (D twice under "diamond")
	closure := map[int][]int{3: {3}, 4: {4}, 1: {1, 3, 4}, 2: {2}, 0: {0, 1, 3, 4, 2}}
	if diamond {
		closure[2] = []int{2, 4}
		closure[0] = []int{0, 1, 3, 4, 2, 4}
	}
	inClosure := func(set int) []int {
		var out []int
		for _, m := range closure[set] {
			for s := range slots {
				if slots[s].set == m {
					out = append(out, s)
				}
			}
		}
		return out
	}
	// expected verdict of buildProviderMap for one set, given its members were accepted
	expectReject := func(set int) bool {
		occ := inClosure(set)
		dup := false
		for a := 0; a < len(occ); a++ {
			for b := 0; b < a; b++ {
				if occ[a] == occ[b] {
					dup = true // the same set reached along two paths
					continue
				}
				dup = vOr(dup, slots[occ[a]].id == slots[occ[b]].id)
			}
		}
		// own bindings need their concrete type among the non-binding sources of the
		// closure or the bindings of imported sets
		unsat := false
		for s := range slots {
			if !slots[s].bind || slots[s].set != set {
				continue
			}
			conc := concT
			if s == sBC {
				conc = concC
			}
			if s == sBA {
				conc = concA
			}
			if s == sBT2 {
				conc = concT2
			}
			have := false
			for _, o := range occ {
				if slots[o].bind && slots[o].set == set {
					continue
				}
				have = vOr(have, slots[o].id == conc)
			}
			unsat = vOr(unsat, vNot(have))
		}
		return vOr(dup, unsat)
	}

	build := func(set *ProviderSet, idx int) bool {
		var errs []error
		set.providerMap, set.srcMap, errs = buildProviderMap(fset, hasher, set)
		want := expectReject(idx)
		vA("C05,C11", vImplies(want, len(errs) > 0), "two sources of one type (or a binding without its concrete type in the same set) must be rejected")
		vA("C10,C11", vImplies(len(errs) > 0, want), "a set whose sources have pairwise distinct types and satisfied bindings must be accepted")
		if len(errs) > 0 {
			vA("C05", set.providerMap == nil && set.srcMap == nil, "nothing is picked: no map is returned together with a conflict")
			for _, e := range errs {
				_, isWireErr := e.(*wireErr)
				vA("C20", isWireErr, "conflict diagnostics carry a position")
			}
			vCover(fmt.Sprintf("rejected-set%d", idx))
			return false
		}
		// every source is retrievable under its type, from the right kind of source
		for _, s := range inClosure(idx) {
			pt := set.providerMap.At(ty(s))
			vA("C05,C10", pt != nil, "every provided type is in the map of an accepted set")
			src := set.srcMap.At(ty(s))
			vA("C05,C10", src != nil, "every provided type has a recorded source in an accepted set")
		}
		return true
	}

	if !build(C, 3) {
		return
	}
	if !build(D, 4) {
		return
	}
	A.Imports = []*ProviderSet{C, D}
	if !build(A, 1) {
		return
	}
	if diamond {
		B.Imports = []*ProviderSet{D}
	}
	if !build(B, 2) {
		return
	}
	T.Imports = []*ProviderSet{A, B}
	if !build(T, 0) {
		return
	}
	vCover("accepted")
	// the binding aliases the concrete entry
	vA("C11", T.providerMap.At(ty(sBT)) == T.providerMap.At(vType(concT)), "an interface binding maps to the very entry of its concrete type")
	_ = sVT
	_ = sFT
	_ = sFA
	_ = sVB
	_ = sVD
	_ = sPD
	_ = sPC
	_ = sSA1
	_ = sFPB1
}
