//go:build verif

package wire

// H_names: disambiguate and typeVariableName on symbolic names against a
// symbolic set of taken names (C14): the result never collides, is never a
// keyword, is the requested name whenever that is free, and the search
// terminates within the step budget. H_field: checkField / allFields on
// symbolic field names (C12): a field is selected only on an exact match.

import (
	"fmt"
	"go/ast"
	"go/token"
	"go/types"
)

func vIdent(name string, n int) string {
	s := vStr(name, n, '0', 'z')
	for i := 0; i < n; i++ {
		c := s[i]
		ok := vOr(vAnd(c >= 'a', c <= 'z'), vAnd(c >= 'A', c <= 'Z'))
		if i > 0 {
			ok = vOr(ok, vAnd(c >= '0', c <= '9'))
		}
		vAssume(ok)
	}
	return s
}

func H_names() {
	n := vParam("len", 2)
	nTaken := vParam("taken", 3)
	name := vIdent("name", n)
	// taken names: the requested name itself (maybe), its numbered successors (maybe), and arbitrary others
	var taken []string
	inSet := make([]bool, 0)
	for i := 0; i < nTaken; i++ {
		var t string
		switch i {
		case 0:
			t = name
		case 1:
			t = name + "2"
		default:
			t = vIdent(fmt.Sprintf("taken%d", i), n+1)
		}
		taken = append(taken, t)
		inSet = append(inSet, vBool(fmt.Sprintf("in%d", i)))
	}
	calls := 0
	collides := func(x string) bool {
		calls++
		r := false
		for i, t := range taken {
			if len(t) == len(x) {
				r = vOr(r, vAnd(inSet[i], vEqStr(t, x)))
			}
		}
		return r
	}
	vStepBudget(400000, "C14:step-bound: disambiguate terminates", "disambiguate terminates within the step budget (unwinding assertion)")
	got := disambiguate(name, collides)
	vStepBudgetEnd()
	vA("C14", vNot(collides(got)), "a disambiguated name never collides with a taken name")
	vA("C14", !token.Lookup(got).IsKeyword(), "a disambiguated name is never a keyword")
	free := vAnd(vNot(collides(name)), vNot(token.Lookup(name).IsKeyword()))
	vA("C14", vImplies(free, len(got) == len(name) && vEqStr(got, name)), "a free name is used unchanged")
	vA("C14", calls <= nTaken+6, "the search tries at most one candidate per taken name (plus keyword misses)")
	vCover("disambiguated")

	// typeVariableName on a named type whose name is symbolic
	pkg := types.NewPackage("example.com/q", "q")
	tn := types.NewTypeName(token.NoPos, pkg, name, nil)
	named := types.NewNamed(tn, types.NewStruct(nil, nil), nil)
	v := typeVariableName(named, "v", unexport, collides)
	vA("C14", vNot(collides(v)), "a derived variable name never collides")
	vA("C14", !token.Lookup(v).IsKeyword(), "a derived variable name is never a keyword")
	vA("C14", len(v) > 0, "a derived variable name is not empty")
}

func H_field() {
	nf := vParam("fields", 2)
	n := vParam("len", 2)
	pkg := types.NewPackage("example.com/h", "h")
	var fields []*types.Var
	var tags []string
	names := make([]string, nf)
	prevented := make([]bool, nf)
	for i := 0; i < nf; i++ {
		names[i] = vIdent(fmt.Sprintf("field%d", i), n)
		for j := 0; j < i; j++ {
			vAssume(vNot(vEqStr(names[i], names[j]))) // field names of one struct are distinct
		}
		fields = append(fields, types.NewField(token.NoPos, pkg, names[i], vType(10+i), false))
		// struct tags in several shapes; a field is prevented exactly when the value of its wire key is "-"
		tagKind := vConc(vInt(fmt.Sprintf("tag%d", i), 0, 10))
		tag := []string{`wire:"-"`, `json:"x" wire:"-"`, `wire:"-" json:"x,omitempty"`, `json:"x"`, `wire:"keep"`, ``, `json:"-"`,
			// keys that merely end in "wire", and the text wire:"-" inside the value of another key
			`hotwire:"-"`, `json:"x" xwire:"-"`, `doc:"use wire:\"-\" to skip"`, `wire:"-,omitempty"`}[tagKind]
		prevented[i] = tagKind <= 2
		tags = append(tags, tag)
	}
	st := types.NewStruct(fields, tags)
	req := vIdent("request", n)
	lit := &ast.BasicLit{Kind: token.STRING, Value: "\"" + req + "\""}
	got, err := checkField(lit, st)
	matches := false
	for i := 0; i < nf; i++ {
		matches = vOr(matches, vEqStr(names[i], req))
	}
	vA("C12", vIff(err == nil, vAnd(matches, vNot(matchPrevented(names, prevented, req)))), "a field name is accepted exactly when it is the name of a field that is not prevented")
	if err == nil {
		ok := false
		for i := 0; i < nf; i++ {
			ok = vOr(ok, vAnd(got == fields[i], vEqStr(names[i], req)))
		}
		vA("C12", ok, "the selected field is the one whose name equals the request byte for byte")
		vCover("field-selected")
	} else {
		vCover("field-refused")
	}
	// "*" selects all fields that are not prevented
	star := &ast.CallExpr{Args: []ast.Expr{&ast.Ident{Name: "x"}, &ast.BasicLit{Kind: token.STRING, Value: `"*"`}}}
	vA("C12", allFields(star), `"*" selects all fields`)
	notStar := &ast.CallExpr{Args: []ast.Expr{&ast.Ident{Name: "x"}, lit}}
	vA("C12", !allFields(notStar), "a field name is not the all-fields marker")
	for i := 0; i < nf; i++ {
		vA("C12,C06", isPrevented(st.Tag(i)) == prevented[i], `exactly the fields tagged wire:"-" are prevented (any other field of a "*" struct provider needs a source)`)
	}
}

func matchPrevented(names []string, prevented []bool, req string) bool {
	r := false
	for i := range names {
		if prevented[i] {
			r = vOr(r, vEqStr(names[i], req))
		}
	}
	return r
}
