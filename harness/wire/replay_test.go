//go:build verif

package wire

import (
	"runtime/debug"
	"fmt"
	"os"
	"testing"
)

// TestVerifReplay runs one harness natively against a replay tape.
// Output protocol (stdout): REPLAY-RESULT: ok | pruned | assert-failed <class> :: <msg> | panic <value>
func TestVerifReplay(t *testing.T) {
	entry := os.Getenv("VERIF_ENTRY")
	f, ok := vNativeEntries()[entry]
	if !ok {
		t.Fatalf("no such harness entry %q", entry)
	}
	vLoadTape()
	func() {
		defer func() {
			r := recover()
			switch p := r.(type) {
			case nil:
				fmt.Println("REPLAY-RESULT: ok")
			case vPrunedT:
				fmt.Println("REPLAY-RESULT: pruned")
			case vAssertFailed:
				fmt.Printf("REPLAY-RESULT: assert-failed %s :: %s\n", p.Class, p.Msg)
			default:
				fmt.Printf("REPLAY-RESULT: panic %v\n", r)
				if os.Getenv("VERIF_STACK") != "" {
					fmt.Printf("%s\n", debug.Stack())
				}
			}
		}()
		f()
	}()
	for k := range vCovers {
		fmt.Println("REPLAY-COVER:", k)
	}
}
