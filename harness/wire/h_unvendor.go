//go:build verif

package wire

// H_unvendor: gen.qualifyImport and isWireImport on symbolic import paths
// (every byte symbolic over an alphabet that can spell "vendor/"). Oracle: the
// import table is keyed by the canonical path: everything after the last
// "vendor/" path element (C16); qualifyImport never hands out "err" and is
// stable per path (C14).

import (
	"go/token"
	"go/types"

	"golang.org/x/tools/go/packages"
)

const vendorElem = "vendor/"

// vPathStr draws a string whose bytes range over the letters of "vendor/" and 'x'.
func vPathStr(name string, n int) string {
	s := vStr(name, n, '/', 'x')
	for i := 0; i < n; i++ {
		c := s[i]
		ok := false
		for _, a := range []byte("vendor/x") {
			ok = vOr(ok, c == a)
		}
		vAssume(ok)
	}
	return s
}

// canonicalIs states that want is the canonical (un-vendored) form of path:
// the part after the last "vendor/" that starts a path element.
func canonicalIs(path, want string) bool {
	n := len(path)
	res := false
	later := false // a boundary occurrence exists at a later position
	for k := n - len(vendorElem); k >= 0; k-- {
		at := vEqStr(path[k:k+len(vendorElem)], vendorElem)
		if k > 0 {
			at = vAnd(at, path[k-1] == '/')
		}
		this := vAnd(at, vNot(later))
		rest := path[k+len(vendorElem):]
		if len(rest) == len(want) {
			res = vOr(res, vAnd(this, vEqStr(rest, want)))
		}
		later = vOr(later, at)
	}
	if len(want) == n {
		res = vOr(res, vAnd(vNot(later), vEqStr(path, want)))
	}
	return res
}

func H_unvendor() {
	n := vParam("len", 9)
	path := vPathStr("path", n)
	pkg := &packages.Package{PkgPath: "example.com/inj", Name: "inj", Fset: new(token.FileSet), Types: types.NewPackage("example.com/inj", "inj")}
	g := newGen(pkg)
	name := g.qualifyImport("dep", path)
	vA("C14", name == "dep", "a free package name is used as is")
	vA("C16", len(g.imports) == 1, "one import is recorded")
	for key, info := range g.imports {
		vA("C16,C15,C01", canonicalIs(path, key), "imports are recorded under the canonical (un-vendored) path")
		vA("C14", info.name == name && !info.differs, "the recorded name is the one handed out")
	}
	again := g.qualifyImport("other", path)
	vA("C14,C16", again == name && len(g.imports) == 1, "the same path always yields the same import name")
	errName := g.qualifyImport("err", "example.com/errpkg")
	vA("C14", errName != "err", "an import is never named err")
	vCover("unvendor")
}

func H_iswire() {
	n := vParam("len", 8)
	prefix := vPathStr("prefix", n)
	got := isWireImport(prefix + "github.com/google/wire")
	want := canonicalIs(prefix+"github.com/google/wire", "github.com/google/wire")
	vA("C16", vIff(got, want), "the wire package is recognised exactly under its canonical or vendored path")
	vCover("iswire")
}
