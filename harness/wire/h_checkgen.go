//go:build verif

package wire

// H_checkgen: the same symbolic provider set and injector signature pushed
// through Load (wire check / wire show) and through Generate (wire gen), with
// only the loader, the syntax recogniser and gofmt stubbed. C19: check reports
// an error exactly when gen does.

import (
	"context"
	"fmt"
	"go/ast"
	"go/token"
	"go/types"

	"golang.org/x/tools/go/packages"
)

func H_checkgen() {
	kinds := decodeSkeleton(vParam("skeleton", 1167))
	K := vParam("K", 2)
	g := buildGraph(kinds, K, vParam("missing", 1), false)
	b := g.materialise()
	hasErr := make([]bool, g.N)
	hasCleanup := make([]bool, g.N)
	for k, kind := range kinds {
		if kind == nkFunc {
			hasErr[k] = vBool(fmt.Sprintf("hasErr%d", k))
			hasCleanup[k] = vBool(fmt.Sprintf("hasCleanup%d", k))
			p := b.items[k].(*Provider)
			p.HasErr, p.HasCleanup = hasErr[k], hasCleanup[k]
		}
	}
	var errs []error
	b.imp.providerMap, b.imp.srcMap, errs = buildProviderMap(b.fset, b.hasher, b.imp)
	if len(errs) > 0 {
		vPrune()
	}
	b.set.Imports = []*ProviderSet{b.imp}

	shape := vConc(vInt("shape", 0, 3))
	sigErr := shape == 1 || shape == 3
	sigCleanup := shape == 2 || shape == 3
	outT := vTypeU(g.out, types.NewStruct(nil, nil))
	res := []*types.Var{types.NewVar(token.NoPos, nil, "", outT)}
	if sigCleanup {
		res = append(res, types.NewVar(token.NoPos, nil, "", types.NewSignature(nil, nil, nil, false)))
	}
	if sigErr {
		res = append(res, types.NewVar(token.NoPos, nil, "", errorType))
	}
	sig := types.NewSignature(nil, b.given, types.NewTuple(res...), false)

	tpkg := types.NewPackage("example.com/inj", "inj")
	fnIdent := ast.NewIdent("inject")
	fnObj := types.NewFunc(token.NoPos, tpkg, "inject", sig)
	info := &types.Info{Defs: map[*ast.Ident]types.Object{fnIdent: fnObj}, Uses: map[*ast.Ident]types.Object{}, Types: map[ast.Expr]types.TypeAndValue{}}
	decl := &ast.FuncDecl{Name: fnIdent, Type: &ast.FuncType{}, Body: &ast.BlockStmt{}}
	file := &ast.File{Name: ast.NewIdent("inj"), Decls: []ast.Decl{decl}}
	fset := token.NewFileSet()
	tf := fset.AddFile("/src/inj/wire.go", -1, 1000)
	file.Package = token.Pos(tf.Base())
	file.Name.NamePos = token.Pos(tf.Base() + 8)
	fnIdent.NamePos = token.Pos(tf.Base() + 20)
	decl.Type.Func = token.Pos(tf.Base() + 15)
	pkg := &packages.Package{PkgPath: "example.com/inj", Name: "inj", Fset: fset, Types: tpkg, TypesInfo: info, Syntax: []*ast.File{file},
		GoFiles: []string{"/src/inj/wire.go"}}

	buildCall := &ast.CallExpr{Fun: ast.NewIdent("Build")}
	vStub("github.com/google/wire/internal/wire.load", func(ctx context.Context, wd string, env []string, tags string, patterns []string) ([]*packages.Package, []error) {
		return []*packages.Package{pkg}, nil
	})
	vStub("github.com/google/wire/internal/wire.findInjectorBuild", func(info *types.Info, fn *ast.FuncDecl) (*ast.CallExpr, error) {
		return buildCall, nil
	})
	vStub("(*github.com/google/wire/internal/wire.objectCache).processNewSet", func(oc *objectCache, info *types.Info, pkgPath string, call *ast.CallExpr, args *InjectorArgs, varName string) (*ProviderSet, []error) {
		set := &ProviderSet{PkgPath: pkgPath, InjectorArgs: args, Imports: b.set.Imports}
		var errs []error
		set.providerMap, set.srcMap, errs = buildProviderMap(oc.fset, oc.hasher, set)
		if len(errs) > 0 {
			return nil, errs
		}
		return set, nil
	})
	vStub("(*github.com/google/wire/internal/wire.gen).writeAST", func(g *gen, info *types.Info, node ast.Node) { g.p("<expr>") })
	vStub("github.com/google/wire/internal/wire.copyNonInjectorDecls", func(g *gen, files []*ast.File, info *types.Info) {})
	vStub("go/format.Source", func(src []byte) ([]byte, error) { return src, nil })

	linfo, lerrs := Load(nil, "/wd", nil, "", []string{"."})
	gres, gerrs := Generate(nil, "/wd", nil, []string{"."}, nil)
	vA("C19", len(gerrs) == 0 && len(gres) == 1, "one generate result")
	if len(gres) != 1 {
		return
	}
	genFails := len(gres[0].Errs) > 0
	checkFails := len(lerrs) > 0
	vA("C19", genFails == checkFails, "wire check reports an error exactly when wire gen does, for the same injector")
	if !checkFails {
		vA("C19", linfo != nil && len(linfo.Injectors) == 1 && linfo.Injectors[0].FuncName == "inject", "an accepted injector is listed by Load")
		vCover("both-accept")
	} else {
		vA("C19", linfo == nil || len(linfo.Injectors) == 0, "a rejected injector is not listed")
		vCover("both-reject")
	}
}
