//go:build verif

package wire

// H_newset: the front end's merging of provider sets — the real processNewSet
// (with processExpr, objectCache.get and its cache, processFuncProvider,
// processBind, buildProviderMap, verifyAcyclic) on every argument list of up
// to `args` items drawn from a pool that contains providers, bindings, named
// set variables, an alias of a set variable and inline sets. The AST and the
// go/types objects are real; which pool item stands at which position is the
// symbolic input (case split by the engine).
//
// Oracle (reference model over the pool, independent of Wire's data
// structures): the call is rejected iff, counting everything reachable
// through nested sets with multiplicity (the same set reached twice counts
// twice), two sources provide one type, or a binding's concrete type is not
// provided by the set the binding is written in (own items and imports), or
// the union graph has a cycle. C05 / C07 / C11 for the rejections, C10 for
// the acceptances; an accepted set must hold every source under its type.

import (
	"fmt"
	"go/ast"
	"go/token"
	"go/types"

	"golang.org/x/tools/go/packages"
)

// type ids of the reference model
const (
	nsA = iota
	nsB
	nsO
	nsFooer
	nsPFoo
	nsPBar
	nsCfg
	nsHost
	nsPort
	nsTypes
)

type nsSource struct {
	out  int   // provided type
	deps []int // needed types (for a binding: the concrete type)
	bind  bool
	field bool
	name  string
}

type nsItem struct {
	label   string
	expr    func() ast.Expr
	own     []nsSource // sources written directly in this item
	imports []int      // pool items this item includes (for sets)
	isSet   bool
	setKey  string // identity of the provider set object ("" for non-sets; inline sets get a fresh one per occurrence)
}

func H_newset() {
	e := newRecogEnv()
	pk := &packages.Package{PkgPath: "example.com/user", Name: "user", Fset: e.fset, Types: e.pkg, TypesInfo: e.info}
	oc := newObjectCache([]*packages.Package{pk})

	named := func(name string, under types.Type) *types.Named {
		return types.NewNamed(types.NewTypeName(token.NoPos, e.pkg, name, nil), under, nil)
	}
	A := named("A", types.NewStruct(nil, nil))
	B := named("B", types.NewStruct(nil, nil))
	O := named("O", types.NewStruct(nil, nil))
	msig := types.NewSignature(nil, nil, nil, false)
	fooerI := types.NewInterfaceType([]*types.Func{types.NewFunc(token.NoPos, e.pkg, "M", msig)}, nil)
	fooerI.Complete()
	Fooer := named("Fooer", fooerI)
	Foo := named("Foo", types.NewStruct(nil, nil))
	Bar := named("Bar", types.NewStruct(nil, nil))
	for _, n := range []*types.Named{Foo, Bar} {
		recv := types.NewVar(token.NoPos, e.pkg, "x", types.NewPointer(n))
		n.AddMethod(types.NewFunc(token.NoPos, e.pkg, "M", types.NewSignature(recv, nil, nil, false)))
	}
	Host := named("Host", types.Typ[types.String])
	Port := named("Port", types.Typ[types.Int])
	Cfg := named("Cfg", types.NewStruct([]*types.Var{
		types.NewField(token.NoPos, e.pkg, "Host", Host, false),
		types.NewField(token.NoPos, e.pkg, "Port", Port, false),
	}, nil))
	goType := []types.Type{nsA: A, nsB: B, nsO: O, nsFooer: Fooer, nsPFoo: types.NewPointer(Foo), nsPBar: types.NewPointer(Bar), nsCfg: Cfg, nsHost: Host, nsPort: Port}

	fn := func(name string, out int, deps ...int) *types.Func {
		var ps []*types.Var
		for i, d := range deps {
			ps = append(ps, types.NewVar(token.NoPos, e.pkg, fmt.Sprintf("p%d", i), goType[d]))
		}
		sig := types.NewSignature(nil, types.NewTuple(ps...), types.NewTuple(types.NewVar(token.NoPos, e.pkg, "", goType[out])), false)
		return types.NewFunc(token.NoPos, e.pkg, name, sig)
	}
	funcs := map[string]*types.Func{
		"NewA": fn("NewA", nsA), "NewA2": fn("NewA2", nsA), "NewB": fn("NewB", nsB, nsA), "NewAB": fn("NewAB", nsA, nsB),
		"NewO": fn("NewO", nsO), "NewFoo": fn("NewFoo", nsPFoo, nsFooer), "NewBar": fn("NewBar", nsPBar), "NewCfg": fn("NewCfg", nsCfg),
	}
	fnExpr := func(name string) func() ast.Expr {
		return func() ast.Expr { return e.ident(name, funcs[name]) }
	}
	newOf := func(tyExpr ast.Expr, elem types.Type) ast.Expr {
		return e.typed(&ast.CallExpr{Fun: e.ident("new", types.Universe.Lookup("new")), Args: []ast.Expr{tyExpr}}, types.NewPointer(elem))
	}
	bindExpr := func(conc *types.Named) func() ast.Expr {
		return func() ast.Expr {
			return &ast.CallExpr{Fun: e.wireFun("Bind", false), Args: []ast.Expr{
				newOf(e.typeIdent(Fooer), Fooer),
				newOf(&ast.StarExpr{X: e.typeIdent(conc)}, types.NewPointer(conc)),
			}}
		}
	}
	fieldsOfExpr := func(field string) func() ast.Expr {
		return func() ast.Expr {
			return &ast.CallExpr{Fun: e.wireFun("FieldsOf", false), Args: []ast.Expr{
				newOf(e.typeIdent(Cfg), Cfg),
				e.typed(&ast.BasicLit{Kind: token.STRING, Value: `"` + field + `"`}, types.Typ[types.String]),
			}}
		}
	}
	provSetT := types.NewNamed(types.NewTypeName(token.NoPos, e.wirePkg, "ProviderSet", nil), types.NewStruct(nil, nil), nil)
	_ = provSetT
	// the set variables are declared in a real file of the package, so that the real objectCache.varDecl
	// (token.File lookup + astutil.PathEnclosingInterval) finds their declarations
	setNames := []string{"Base", "SA", "Alias", "Barred", "BarOnly"}
	tf := e.fset.AddFile("sets.go", 10, 1000) // explicit base: e.fset is a zero FileSet whose first base would be NoPos
	filePos := func(off int) token.Pos { return token.Pos(tf.Base() + off) }
	setVars := map[string]*types.Var{}
	for k, n := range setNames {
		setVars[n] = types.NewVar(filePos(100*(k+1)+4), e.pkg, n, provSetT)
	}
	varExpr := func(name string) func() ast.Expr {
		return func() ast.Expr { return e.ident(name, setVars[name]) }
	}
	var pool []nsItem
	inline := func(members ...int) func() ast.Expr {
		return func() ast.Expr {
			call := &ast.CallExpr{Fun: e.wireFun("NewSet", false)}
			for _, m := range members {
				call.Args = append(call.Args, pool[m].expr())
			}
			return call
		}
	}
	src := func(name string, out int, deps ...int) []nsSource { return []nsSource{{out: out, deps: deps, name: name}} }
	pool = []nsItem{
		0:  {label: "NewA", expr: fnExpr("NewA"), own: src("NewA", nsA)},
		1:  {label: "NewA2", expr: fnExpr("NewA2"), own: src("NewA2", nsA)},
		2:  {label: "NewB", expr: fnExpr("NewB"), own: src("NewB", nsB, nsA)},
		3:  {label: "NewAB", expr: fnExpr("NewAB"), own: src("NewAB", nsA, nsB)},
		4:  {label: "NewO", expr: fnExpr("NewO"), own: src("NewO", nsO)},
		5:  {label: "NewFoo", expr: fnExpr("NewFoo"), own: src("NewFoo", nsPFoo, nsFooer)},
		6:  {label: "NewBar", expr: fnExpr("NewBar"), own: src("NewBar", nsPBar)},
		7:  {label: "Bind(Fooer,*Foo)", expr: bindExpr(Foo), own: []nsSource{{out: nsFooer, deps: []int{nsPFoo}, bind: true}}},
		8:  {label: "Bind(Fooer,*Bar)", expr: bindExpr(Bar), own: []nsSource{{out: nsFooer, deps: []int{nsPBar}, bind: true}}},
		9:  {label: "Base", expr: varExpr("Base"), isSet: true, setKey: "Base", imports: []int{5, 4}},        // var Base = wire.NewSet(NewFoo, NewO)
		10: {label: "SA", expr: varExpr("SA"), isSet: true, setKey: "SA", imports: []int{0}},                  // var SA = wire.NewSet(NewA)
		11: {label: "Alias", expr: varExpr("Alias"), isSet: true, setKey: "SA", imports: []int{0}},            // var Alias = SA
		12: {label: "Barred", expr: varExpr("Barred"), isSet: true, setKey: "Barred", imports: []int{6, 8}},   // var Barred = wire.NewSet(NewBar, wire.Bind(new(Fooer), new(*Bar)))
		13: {label: "BarOnly", expr: varExpr("BarOnly"), isSet: true, setKey: "BarOnly", imports: []int{6}},     // var BarOnly = wire.NewSet(NewBar)
	}
	pool = append(pool,
		nsItem{label: "NewSet(NewA)", isSet: true, imports: []int{0}},
		nsItem{label: "NewSet(NewA2)", isSet: true, imports: []int{1}},
		nsItem{label: "NewSet(NewB)", isSet: true, imports: []int{2}},
		nsItem{label: "NewSet(Base)", isSet: true, imports: []int{9}},
		nsItem{label: "NewSet(Base, Bind(Fooer,*Foo))", isSet: true, imports: []int{9, 7}},
		nsItem{label: "NewSet(SA, NewB)", isSet: true, imports: []int{10, 2}},
		nsItem{label: "NewSet(BarOnly, Bind(Fooer,*Bar))", isSet: true, imports: []int{13, 8}},
	)
	for i := 14; i < len(pool); i++ {
		pool[i].expr = inline(pool[i].imports...)
	}
	// field providers and the provider of their struct (several wire.FieldsOf items may stand in one call)
	pool = append(pool,
		nsItem{label: "NewCfg", expr: fnExpr("NewCfg"), own: src("NewCfg", nsCfg)},
		nsItem{label: `FieldsOf(Cfg,"Host")`, expr: fieldsOfExpr("Host"), own: []nsSource{{out: nsHost, deps: []int{nsCfg}, field: true, name: "Host"}}},
		nsItem{label: `FieldsOf(Cfg,"Port")`, expr: fieldsOfExpr("Port"), own: []nsSource{{out: nsPort, deps: []int{nsCfg}, field: true, name: "Port"}}},
	)
	// declarations of the set variables: var <Name> = <initializer>, each in its own 100-byte stretch of sets.go
	initOf := map[string]func() ast.Expr{
		"Base":   inline(5, 4),
		"SA":     inline(0),
		"Alias":  varExpr("SA"),
		"Barred": inline(6, 8),
		"BarOnly": inline(6),
	}
	file := &ast.File{Package: filePos(0), Name: &ast.Ident{NamePos: filePos(8), Name: "user"}}
	for k, n := range setNames {
		start := 100 * (k + 1)
		val := initOf[n]()
		switch v := val.(type) {
		case *ast.CallExpr: // wire.NewSet(...)
			sel := v.Fun.(*ast.SelectorExpr)
			sel.X.(*ast.Ident).NamePos = filePos(start + 10)
			sel.Sel.NamePos = filePos(start + 15)
			v.Lparen, v.Rparen = filePos(start+21), filePos(start+90)
		case *ast.Ident:
			v.NamePos = filePos(start + 10)
		}
		spec := &ast.ValueSpec{Names: []*ast.Ident{{NamePos: filePos(start + 4), Name: n}}, Values: []ast.Expr{val}}
		file.Decls = append(file.Decls, &ast.GenDecl{TokPos: filePos(start), Tok: token.VAR, Specs: []ast.Spec{spec}})
	}
	pk.Syntax = []*ast.File{file}
	// ---- the symbolic argument list
	n := vParam("args", 3)
	nArgs := vConc(vInt("nargs", 1, n))
	choice := make([]int, nArgs)
	call := &ast.CallExpr{Fun: e.wireFun("NewSet", false)}
	for i := range choice {
		choice[i] = vConc(vInt(fmt.Sprintf("arg%d", i), 0, len(pool)-1))
		call.Args = append(call.Args, pool[choice[i]].expr())
	}

	// ---- reference model
	// verdict of one set given its direct members; returns the flattened sources (with multiplicity) and whether
	// the set itself is well-formed
	var flatten func(members []int, seen map[string]int) ([]nsSource, bool)
	flatten = func(members []int, seen map[string]int) ([]nsSource, bool) {
		ok := true
		var all []nsSource
		var ownBindings []nsSource
		for _, m := range members {
			it := pool[m]
			if it.isSet {
				sub, subOK := flatten(it.imports, map[string]int{})
				ok = ok && subOK
				all = append(all, sub...)
				continue
			}
			all = append(all, it.own...)
			if it.own[0].bind {
				ownBindings = append(ownBindings, it.own[0])
			}
		}
		// one source per type
		cnt := make([]int, nsTypes)
		for _, s := range all {
			cnt[s.out]++
		}
		for _, c := range cnt {
			if c > 1 {
				ok = false
			}
		}
		// bindings written in this set need their concrete type in this set's closure
		for _, b := range ownBindings {
			if cnt[b.deps[0]] == 0 {
				ok = false
			}
		}
		// cycles
		adj := make([][]int, nsTypes)
		for _, s := range all {
			adj[s.out] = append(adj[s.out], s.deps...)
		}
		state := make([]int, nsTypes)
		var dfs func(v int) bool
		dfs = func(v int) bool {
			state[v] = 1
			for _, w := range adj[v] {
				if state[w] == 1 || (state[w] == 0 && dfs(w)) {
					return true
				}
			}
			state[v] = 2
			return false
		}
		for v := 0; v < nsTypes; v++ {
			if state[v] == 0 && dfs(v) {
				ok = false
			}
		}
		return all, ok
	}
	all, wantOK := flatten(choice, nil)

	// ---- optionally, another set is analysed first with the same object cache (as happens when a package has
	// several injectors or set variables): whatever it is, and whether or not it is accepted, it must not
	// influence the verdict on the call under test (no state shared between the analyses of two sets)
	if vParam("warm", 0) != 0 {
		w := vConc(vInt("warm", 8, len(pool)-1))
		if w >= 9 { // 8 stands for "nothing analysed before"
			warm := &ast.CallExpr{Fun: e.wireFun("NewSet", false), Args: []ast.Expr{pool[w].expr()}}
			oc.processExpr(e.info, "example.com/user", warm, "")
			vNote("analysed before: NewSet(" + pool[w].label + ")")
		}
	}
	// the same provider-set object reached twice provides everything twice: already counted by flatten, since
	// every occurrence contributes its sources; nothing more to do for aliases (Alias and SA are one object)

	// through processExpr, as every wire.NewSet call is reached (it adds the call's position to the diagnostics)
	item, errs := oc.processExpr(e.info, "example.com/user", call, "")
	pset, _ := item.(*ProviderSet)
	desc := ""
	for _, c := range choice {
		desc += pool[c].label + "; "
	}
	vNote("args: " + desc)
	if len(errs) > 0 {
		vNote(fmt.Sprint("diagnostics: ", errs))
		checkErrs(errs)
		vA("C10,C05,C11,C07", !wantOK, "a set whose sources have pairwise distinct types, whose bindings have their concrete type in the same set and whose graph is acyclic is accepted, however its members are grouped into named, aliased and inline sets")
		vA("C05", pset == nil, "no set is returned together with errors")
		vCover("newset-refused")
		return
	}
	vA("C05,C07,C11", wantOK, "a set in which two sources (counting nested sets with multiplicity) provide one type, a binding lacks its concrete type, or the graph has a cycle is rejected")
	vCover("newset-accepted")
	if pset == nil || !wantOK {
		return
	}
	nSets := 0
	for _, c := range choice {
		if pool[c].isSet {
			nSets++
		}
	}
	vA("C10,C05", len(pset.Imports) == nSets, "every set argument is imported (none dropped, none merged)")
	provided := make([]bool, nsTypes)
	for _, s := range all {
		provided[s.out] = true
	}
	for t := 0; t < nsTypes; t++ {
		if !provided[t] {
			vA("C06,C11", pset.For(goType[t]).IsNil(), "a set provides nothing beyond its own sources (a type without a source stays missing)")
		}
	}
	for _, s := range all {
		pt := pset.For(goType[s.out])
		vA("C10,C05,C08", !pt.IsNil(), "every source of an accepted set is retrievable under its type (no item is dropped while the set is assembled)")
		if pt.IsNil() {
			continue
		}
		if s.bind {
			conc := pset.For(goType[s.deps[0]])
			vA("C11", pt.IsProvider() && conc.IsProvider() && pt.Provider() == conc.Provider(), "an interface binding designates the provider of its concrete type")
		} else if s.field {
			vA("C02,C10,C08,C12", pt.IsField() && pt.Field().Name == s.name, "a field's type is provided by the field provider written for it (no wire.FieldsOf item is lost)")
		} else {
			vA("C02,C10", pt.IsProvider() && pt.Provider().Name == s.name, "a type is provided by the function written for it")
		}
	}
}
