package main

// One long-lived SMT solver process per worker (z3 -in by default), spoken to
// over a pipe in SMT-LIB2. Any "(error" line or "unknown" makes the query
// inconclusive: it is never read as a verdict.

import (
	"bufio"
	"fmt"
	"io"
	"os"
	"os/exec"
	"strings"
	"time"
)

type solver struct {
	cmd     *exec.Cmd
	in      io.WriteCloser
	out     *bufio.Reader
	log     *os.File
	queries int
	sat     int
	unsat   int
	unknown int
	wall    time.Duration
	argv    []string
}

func solverArgv(kind string, timeoutMs int) []string {
	switch kind {
	case "z3":
		return []string{"z3", "-in", fmt.Sprintf("-t:%d", timeoutMs)}
	case "z3-new":
		return []string{"z3-new", "-in", fmt.Sprintf("-t:%d", timeoutMs)}
	case "cvc5":
		return []string{"cvc5", "--incremental", "--lang=smt2", "--produce-models", fmt.Sprintf("--tlimit-per=%d", timeoutMs)}
	}
	panic("unknown solver " + kind)
}

func newSolver(kind string, timeoutMs int, logPath string) (*solver, error) {
	s := &solver{argv: solverArgv(kind, timeoutMs)}
	if logPath != "" {
		f, err := os.Create(logPath)
		if err != nil {
			return nil, err
		}
		s.log = f
	}
	if err := s.start(); err != nil {
		return nil, err
	}
	return s, nil
}

func (s *solver) start() error {
	s.cmd = exec.Command(s.argv[0], s.argv[1:]...)
	in, err := s.cmd.StdinPipe()
	if err != nil {
		return err
	}
	out, err := s.cmd.StdoutPipe()
	if err != nil {
		return err
	}
	s.cmd.Stderr = os.Stderr
	if err := s.cmd.Start(); err != nil {
		return err
	}
	s.in = in
	s.out = bufio.NewReaderSize(out, 1<<16)
	if s.argv[0] == "cvc5" {
		s.send("(set-logic ALL)")
	}
	return nil
}

func (s *solver) close() {
	if s.in != nil {
		s.in.Close()
	}
	if s.cmd != nil {
		s.cmd.Process.Kill()
		s.cmd.Wait()
	}
	if s.log != nil {
		s.log.Close()
	}
}

func (s *solver) send(line string) {
	if s.log != nil {
		fmt.Fprintln(s.log, line)
	}
	if _, err := io.WriteString(s.in, line+"\n"); err != nil {
		panic(engineAbort{"solver pipe: " + err.Error()})
	}
}

func (s *solver) readLine() string {
	line, err := s.out.ReadString('\n')
	if err != nil {
		panic(engineAbort{"solver pipe closed: " + err.Error()})
	}
	line = strings.TrimSpace(line)
	if s.log != nil {
		fmt.Fprintln(s.log, "; -> "+line)
	}
	return line
}

// reset clears all assertions and declarations.
func (s *solver) reset() {
	if s.argv[0] == "cvc5" {
		s.send("(reset)")
		s.send("(set-logic ALL)")
		return
	}
	s.send("(reset)")
}

// checkSat returns "sat", "unsat" or "unknown" (the latter also for errors).
func (s *solver) checkSat() string {
	t0 := time.Now()
	s.send("(check-sat)")
	r := s.readLine()
	for r == "" {
		r = s.readLine()
	}
	s.wall += time.Since(t0)
	s.queries++
	switch r {
	case "sat":
		s.sat++
	case "unsat":
		s.unsat++
	default:
		s.unknown++
		if strings.HasPrefix(r, "(error") || r != "unknown" {
			return "unknown:" + r
		}
	}
	return r
}

// getValues evaluates the given closed expressions in the current model.
// Returns the raw s-expression text.
func (s *solver) getValues(names []string) string {
	s.send("(get-value (" + strings.Join(names, " ") + "))")
	// read until parens balance
	var sb strings.Builder
	depth := 0
	started := false
	for {
		line := s.readLine()
		if strings.HasPrefix(line, "(error") {
			panic(engineAbort{"solver error on get-value: " + line})
		}
		sb.WriteString(line)
		sb.WriteByte(' ')
		for _, c := range line {
			if c == '(' {
				depth++
				started = true
			} else if c == ')' {
				depth--
			}
		}
		if started && depth <= 0 {
			break
		}
	}
	return sb.String()
}

// parseValues parses z3/cvc5 get-value output of the form
// ((name #x...) (name #b...) (name true) (name (_ bv3 64))) into a map.
func parseValues(raw string) map[string]uint64 {
	res := map[string]uint64{}
	toks := tokenize(raw)
	// expect ( ( name val ) ( name val ) ... )
	i := 0
	next := func() string {
		if i < len(toks) {
			t := toks[i]
			i++
			return t
		}
		return ""
	}
	if next() != "(" {
		return res
	}
	for i < len(toks) {
		t := next()
		if t == ")" {
			break
		}
		if t != "(" {
			continue
		}
		name := next()
		v := next()
		var val uint64
		switch {
		case v == "true":
			val = 1
		case v == "false":
			val = 0
		case strings.HasPrefix(v, "#x"):
			fmt.Sscanf(v[2:], "%x", &val)
		case strings.HasPrefix(v, "#b"):
			for _, c := range v[2:] {
				val = val<<1 | uint64(c-'0')
			}
		case v == "(":
			// (_ bvN w)
			next() // _
			bv := next()
			next() // width
			next() // )
			fmt.Sscanf(strings.TrimPrefix(bv, "bv"), "%d", &val)
		}
		// consume closing paren of the pair
		for i < len(toks) && toks[i] != ")" {
			i++
		}
		i++
		res[name] = val
	}
	return res
}

func tokenize(s string) []string {
	var toks []string
	cur := strings.Builder{}
	flush := func() {
		if cur.Len() > 0 {
			toks = append(toks, cur.String())
			cur.Reset()
		}
	}
	for _, c := range s {
		switch c {
		case '(', ')':
			flush()
			toks = append(toks, string(c))
		case ' ', '\t', '\n', '\r':
			flush()
		default:
			cur.WriteRune(c)
		}
	}
	flush()
	return toks
}
