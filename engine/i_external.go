// Copyright 2013 The Go Authors. All rights reserved.
// Use of this source code is governed by a BSD-style
// license that can be found in the LICENSE file.

package main

// Emulated functions that we cannot interpret because they are
// external or because they use "unsafe" or "reflect" operations.

import (
	"bytes"
	"math"
	"os"
	"runtime"
	"sort"
	"strconv"
	"strings"
	"time"
	"unicode/utf8"
)

type externalFn func(fr *frame, args []value) value

// TODO(adonovan): fix: reflect.Value abstracts an lvalue or an
// rvalue; Set() causes mutations that can be observed via aliases.
// We have not captured that correctly here.

// Key strings are from Function.String().
var externals = make(map[string]externalFn)

func init() {
	// That little dot ۰ is an Arabic zero numeral (U+06F0), categories [Nd].
	for k, v := range map[string]externalFn{
		"(reflect.Value).Bool":            ext۰reflect۰Value۰Bool,
		"(reflect.Value).CanAddr":         ext۰reflect۰Value۰CanAddr,
		"(reflect.Value).CanInterface":    ext۰reflect۰Value۰CanInterface,
		"(reflect.Value).Elem":            ext۰reflect۰Value۰Elem,
		"(reflect.Value).Field":           ext۰reflect۰Value۰Field,
		"(reflect.Value).Float":           ext۰reflect۰Value۰Float,
		"(reflect.Value).Index":           ext۰reflect۰Value۰Index,
		"(reflect.Value).Int":             ext۰reflect۰Value۰Int,
		"(reflect.Value).Interface":       ext۰reflect۰Value۰Interface,
		"(reflect.Value).IsNil":           ext۰reflect۰Value۰IsNil,
		"(reflect.Value).IsValid":         ext۰reflect۰Value۰IsValid,
		"(reflect.Value).Kind":            ext۰reflect۰Value۰Kind,
		"(reflect.Value).Len":             ext۰reflect۰Value۰Len,
		"(reflect.Value).MapIndex":        ext۰reflect۰Value۰MapIndex,
		"(reflect.Value).MapKeys":         ext۰reflect۰Value۰MapKeys,
		"(reflect.Value).NumField":        ext۰reflect۰Value۰NumField,
		"(reflect.Value).NumMethod":       ext۰reflect۰Value۰NumMethod,
		"(reflect.Value).Pointer":         ext۰reflect۰Value۰Pointer,
		"(reflect.Value).Set":             ext۰reflect۰Value۰Set2,
		"(reflect.Value).FieldByName":     ext۰reflect۰Value۰FieldByName,
		"reflect.Indirect":                ext۰reflect۰Indirect,
		"(reflect.Value).String":          ext۰reflect۰Value۰String,
		"(reflect.Value).Type":            ext۰reflect۰Value۰Type,
		"(reflect.Value).Uint":            ext۰reflect۰Value۰Uint,
		"(reflect.error).Error":           ext۰reflect۰error۰Error,
		"(reflect.rtype).Bits":            ext۰reflect۰rtype۰Bits,
		"(reflect.rtype).Elem":            ext۰reflect۰rtype۰Elem,
		"(reflect.rtype).Field":           ext۰reflect۰rtype۰Field,
		"(reflect.rtype).In":              ext۰reflect۰rtype۰In,
		"(reflect.rtype).Kind":            ext۰reflect۰rtype۰Kind,
		"(reflect.rtype).NumField":        ext۰reflect۰rtype۰NumField,
		"(reflect.rtype).NumIn":           ext۰reflect۰rtype۰NumIn,
		"(reflect.rtype).NumMethod":       ext۰reflect۰rtype۰NumMethod,
		"(reflect.rtype).NumOut":          ext۰reflect۰rtype۰NumOut,
		"(reflect.rtype).Out":             ext۰reflect۰rtype۰Out,
		"(reflect.rtype).Size":            ext۰reflect۰rtype۰Size,
		"(reflect.rtype).String":          ext۰reflect۰rtype۰String,
		"bytes.Equal":                     ext۰bytes۰Equal,
		"bytes.IndexByte":                 ext۰bytes۰IndexByte,
		"fmt.Sprint":                      ext۰fmt۰Sprint,
		"math.Abs":                        ext۰math۰Abs,
		"math.Copysign":                   ext۰math۰Copysign,
		"math.Exp":                        ext۰math۰Exp,
		"math.Float32bits":                ext۰math۰Float32bits,
		"math.Float32frombits":            ext۰math۰Float32frombits,
		"math.Float64bits":                ext۰math۰Float64bits,
		"math.Float64frombits":            ext۰math۰Float64frombits,
		"math.Inf":                        ext۰math۰Inf,
		"math.IsNaN":                      ext۰math۰IsNaN,
		"math.Ldexp":                      ext۰math۰Ldexp,
		"math.Log":                        ext۰math۰Log,
		"math.Min":                        ext۰math۰Min,
		"math.NaN":                        ext۰math۰NaN,
		"math.Sqrt":                       ext۰math۰Sqrt,
		"os.Exit":                         ext۰os۰Exit,
		"os.Getenv":                       ext۰os۰Getenv,
		"reflect.New":                     ext۰reflect۰New,
		"reflect.SliceOf":                 ext۰reflect۰SliceOf,
		"reflect.TypeOf":                  ext۰reflect۰TypeOf,
		"reflect.ValueOf":                 ext۰reflect۰ValueOf,
		"reflect.Zero":                    ext۰reflect۰Zero,
		"runtime.Breakpoint":              ext۰runtime۰Breakpoint,
		"runtime.GC":                      ext۰runtime۰GC,
		"runtime.GOMAXPROCS":              ext۰runtime۰GOMAXPROCS,
		"runtime.GOROOT":                  ext۰runtime۰GOROOT,
		"runtime.Goexit":                  ext۰runtime۰Goexit,
		"runtime.Gosched":                 ext۰runtime۰Gosched,
		"runtime.NumCPU":                  ext۰runtime۰NumCPU,
		"sort.Float64s":                   ext۰sort۰Float64s,
		"sort.Ints":                       ext۰sort۰Ints,
		"sort.Strings":                    ext۰sort۰Strings,
		"strconv.Atoi":                    ext۰strconv۰Atoi,
		"strconv.Itoa":                    ext۰strconv۰Itoa,
		"strconv.FormatFloat":             ext۰strconv۰FormatFloat,
		"strings.Count":                   ext۰strings۰Count,
		"strings.EqualFold":               ext۰strings۰EqualFold,
		"strings.Index":                   ext۰strings۰Index,
		"strings.IndexByte":               ext۰strings۰IndexByte,
		"strings.Replace":                 ext۰strings۰Replace,
		"strings.ToLower":                 ext۰strings۰ToLower,
		"time.Sleep":                      ext۰time۰Sleep,
		"unicode/utf8.DecodeRuneInString": ext۰unicode۰utf8۰DecodeRuneInString,
	} {
		externals[k] = v
	}
}

func ext۰bytes۰Equal(fr *frame, args []value) value {
	// func Equal(a, b []byte) bool
	a := args[0].([]value)
	b := args[1].([]value)
	if len(a) != len(b) {
		return false
	}
	for i := range a {
		if a[i] != b[i] {
			return false
		}
	}
	return true
}

func ext۰bytes۰IndexByte(fr *frame, args []value) value {
	// func IndexByte(s []byte, c byte) int
	s := args[0].([]value)
	c := args[1].(byte)
	for i, b := range s {
		if b.(byte) == c {
			return i
		}
	}
	return -1
}

func ext۰math۰Float64frombits(fr *frame, args []value) value {
	return math.Float64frombits(args[0].(uint64))
}

func ext۰math۰Float64bits(fr *frame, args []value) value {
	return math.Float64bits(args[0].(float64))
}

func ext۰math۰Float32frombits(fr *frame, args []value) value {
	return math.Float32frombits(args[0].(uint32))
}

func ext۰math۰Abs(fr *frame, args []value) value {
	return math.Abs(args[0].(float64))
}

func ext۰math۰Copysign(fr *frame, args []value) value {
	return math.Copysign(args[0].(float64), args[1].(float64))
}

func ext۰math۰Exp(fr *frame, args []value) value {
	return math.Exp(args[0].(float64))
}

func ext۰math۰Float32bits(fr *frame, args []value) value {
	return math.Float32bits(args[0].(float32))
}

func ext۰math۰Min(fr *frame, args []value) value {
	return math.Min(args[0].(float64), args[1].(float64))
}

func ext۰math۰NaN(fr *frame, args []value) value {
	return math.NaN()
}

func ext۰math۰IsNaN(fr *frame, args []value) value {
	return math.IsNaN(args[0].(float64))
}

func ext۰math۰Inf(fr *frame, args []value) value {
	return math.Inf(args[0].(int))
}

func ext۰math۰Ldexp(fr *frame, args []value) value {
	return math.Ldexp(args[0].(float64), args[1].(int))
}

func ext۰math۰Log(fr *frame, args []value) value {
	return math.Log(args[0].(float64))
}

func ext۰math۰Sqrt(fr *frame, args []value) value {
	return math.Sqrt(args[0].(float64))
}

func ext۰runtime۰Breakpoint(fr *frame, args []value) value {
	runtime.Breakpoint()
	return nil
}

func ext۰sort۰Ints(fr *frame, args []value) value {
	x := args[0].([]value)
	sort.Slice(x, func(i, j int) bool {
		return x[i].(int) < x[j].(int)
	})
	return nil
}
func ext۰sort۰Strings(fr *frame, args []value) value {
	x := args[0].([]value)
	sort.Slice(x, func(i, j int) bool {
		return x[i].(string) < x[j].(string)
	})
	return nil
}
func ext۰sort۰Float64s(fr *frame, args []value) value {
	x := args[0].([]value)
	sort.Slice(x, func(i, j int) bool {
		return x[i].(float64) < x[j].(float64)
	})
	return nil
}

func ext۰strconv۰Atoi(fr *frame, args []value) value {
	i, e := strconv.Atoi(args[0].(string))
	if e != nil {
		return tuple{i, iface{fr.i.runtimeErrorString, e.Error()}}
	}
	return tuple{i, iface{}}
}
func ext۰strconv۰Itoa(fr *frame, args []value) value {
	return strconv.Itoa(args[0].(int))
}
func ext۰strconv۰FormatFloat(fr *frame, args []value) value {
	return strconv.FormatFloat(args[0].(float64), args[1].(byte), args[2].(int), args[3].(int))
}

func ext۰strings۰Count(fr *frame, args []value) value {
	return strings.Count(args[0].(string), args[1].(string))
}

func ext۰strings۰EqualFold(fr *frame, args []value) value {
	return strings.EqualFold(args[0].(string), args[1].(string))
}
func ext۰strings۰IndexByte(fr *frame, args []value) value {
	return strings.IndexByte(args[0].(string), args[1].(byte))
}

func ext۰strings۰Index(fr *frame, args []value) value {
	return strings.Index(args[0].(string), args[1].(string))
}

func ext۰strings۰Replace(fr *frame, args []value) value {
	// func Replace(s, old, new string, n int) string
	s := args[0].(string)
	new := args[1].(string)
	old := args[2].(string)
	n := args[3].(int)
	return strings.Replace(s, old, new, n)
}

func ext۰strings۰ToLower(fr *frame, args []value) value {
	return strings.ToLower(args[0].(string))
}

func ext۰runtime۰GOMAXPROCS(fr *frame, args []value) value {
	// Ignore args[0]; don't let the interpreted program
	// set the interpreter's GOMAXPROCS!
	return runtime.GOMAXPROCS(0)
}

func ext۰runtime۰Goexit(fr *frame, args []value) value {
	// TODO(adonovan): don't kill the interpreter's main goroutine.
	runtime.Goexit()
	return nil
}

func ext۰runtime۰GOROOT(fr *frame, args []value) value {
	return runtime.GOROOT()
}

func ext۰runtime۰GC(fr *frame, args []value) value {
	runtime.GC()
	return nil
}

func ext۰runtime۰Gosched(fr *frame, args []value) value {
	runtime.Gosched()
	return nil
}

func ext۰runtime۰NumCPU(fr *frame, args []value) value {
	return runtime.NumCPU()
}

func ext۰time۰Sleep(fr *frame, args []value) value {
	time.Sleep(time.Duration(args[0].(int64)))
	return nil
}

func ext۰os۰Getenv(fr *frame, args []value) value {
	name := args[0].(string)
	switch name {
	case "GOSSAINTERP":
		return "1"
	}
	return os.Getenv(name)
}

func ext۰os۰Exit(fr *frame, args []value) value {
	panic(exitPanic(args[0].(int)))
}

func ext۰unicode۰utf8۰DecodeRuneInString(fr *frame, args []value) value {
	r, n := utf8.DecodeRuneInString(args[0].(string))
	return tuple{r, n}
}

// A fake function for turning an arbitrary value into a string.
// Handles only the cases needed by the tests.
// Uses same logic as 'print' built-in.
func ext۰fmt۰Sprint(fr *frame, args []value) value {
	buf := new(bytes.Buffer)
	wasStr := false
	for i, arg := range args[0].([]value) {
		x := arg.(iface).v
		_, isStr := x.(string)
		if i > 0 && !wasStr && !isStr {
			buf.WriteByte(' ')
		}
		wasStr = isStr
		buf.WriteString(toString(x))
	}
	return buf.String()
}
