package main

// Symbolic terms: hash-consed per path context, with light constant folding.
// Sorts: Bool and bit-vectors of width 8/16/32/64 (Go integers wrap, so do
// the terms).

import (
	"fmt"
	"go/types"
	"strconv"
	"strings"
)

type term struct {
	id    int
	op    string // "var", "const", "true", "false", or an SMT-LIB operator
	args  []*term
	width int    // 0 = Bool, else bit-vector width
	name  string // for var
	cval  uint64 // for const (masked to width)
}

func (t *term) isConst() bool { return t.op == "const" || t.op == "true" || t.op == "false" }
func (t *term) isBool() bool  { return t.width == 0 }

func (t *term) sort() string {
	if t.width == 0 {
		return "Bool"
	}
	return fmt.Sprintf("(_ BitVec %d)", t.width)
}

// sym is the interpreter value for a symbolic scalar.
type sym struct {
	t    *term
	kind types.BasicKind // Go kind (types.Bool, types.Int, types.Uint8, ...)
	px   *pathCtx
}

func kindWidth(k types.BasicKind) int {
	switch k {
	case types.Bool, types.UntypedBool:
		return 0
	case types.Int8, types.Uint8:
		return 8
	case types.Int16, types.Uint16:
		return 16
	case types.Int32, types.Uint32, types.UntypedRune:
		return 32
	case types.Int, types.Int64, types.Uint, types.Uint64, types.Uintptr, types.UntypedInt:
		return 64
	}
	panic(fmt.Sprintf("kindWidth: unsupported kind %v", k))
}

func kindSigned(k types.BasicKind) bool {
	switch k {
	case types.Int, types.Int8, types.Int16, types.Int32, types.Int64, types.UntypedInt, types.UntypedRune:
		return true
	}
	return false
}

func mask(w int) uint64 {
	if w >= 64 {
		return ^uint64(0)
	}
	return (uint64(1) << uint(w)) - 1
}

func signExt(v uint64, w int) int64 {
	if w >= 64 {
		return int64(v)
	}
	sh := uint(64 - w)
	return int64(v<<sh) >> sh
}

// termTable hash-conses terms for one path.
type termTable struct {
	byKey map[string]*term
	all   []*term
}

func newTermTable() *termTable { return &termTable{byKey: map[string]*term{}} }

func (tt *termTable) mk(op string, width int, name string, cval uint64, args ...*term) *term {
	var sb strings.Builder
	sb.WriteString(op)
	sb.WriteByte('/')
	sb.WriteString(strconv.Itoa(width))
	sb.WriteByte('/')
	sb.WriteString(name)
	sb.WriteByte('/')
	sb.WriteString(strconv.FormatUint(cval, 16))
	for _, a := range args {
		sb.WriteByte(',')
		sb.WriteString(strconv.Itoa(a.id))
	}
	k := sb.String()
	if t, ok := tt.byKey[k]; ok {
		return t
	}
	t := &term{id: len(tt.all), op: op, args: args, width: width, name: name, cval: cval}
	tt.all = append(tt.all, t)
	tt.byKey[k] = t
	return t
}

func (tt *termTable) tTrue() *term  { return tt.mk("true", 0, "", 0) }
func (tt *termTable) tFalse() *term { return tt.mk("false", 0, "", 0) }
func (tt *termTable) tBool(b bool) *term {
	if b {
		return tt.tTrue()
	}
	return tt.tFalse()
}
func (tt *termTable) tConst(v uint64, w int) *term { return tt.mk("const", w, "", v&mask(w)) }
func (tt *termTable) tVar(name string, w int) *term {
	return tt.mk("var", w, name, 0)
}

func (tt *termTable) not(a *term) *term {
	switch a.op {
	case "true":
		return tt.tFalse()
	case "false":
		return tt.tTrue()
	case "not":
		return a.args[0]
	}
	return tt.mk("not", 0, "", 0, a)
}

func (tt *termTable) and(a, b *term) *term {
	if a.op == "false" || b.op == "false" {
		return tt.tFalse()
	}
	if a.op == "true" {
		return b
	}
	if b.op == "true" {
		return a
	}
	if a == b {
		return a
	}
	if a.id > b.id {
		a, b = b, a
	}
	return tt.mk("and", 0, "", 0, a, b)
}

func (tt *termTable) or(a, b *term) *term {
	if a.op == "true" || b.op == "true" {
		return tt.tTrue()
	}
	if a.op == "false" {
		return b
	}
	if b.op == "false" {
		return a
	}
	if a == b {
		return a
	}
	if a.id > b.id {
		a, b = b, a
	}
	return tt.mk("or", 0, "", 0, a, b)
}

func (tt *termTable) eq(a, b *term) *term {
	if a == b {
		return tt.tTrue()
	}
	if a.width != b.width {
		panic(fmt.Sprintf("eq: width mismatch %d vs %d", a.width, b.width))
	}
	if a.isConst() && b.isConst() {
		if a.isBool() {
			return tt.tBool(a.op == b.op)
		}
		return tt.tBool(a.cval == b.cval)
	}
	if a.isBool() {
		// (= a true) -> a etc.
		if b.op == "true" {
			return a
		}
		if b.op == "false" {
			return tt.not(a)
		}
		if a.op == "true" {
			return b
		}
		if a.op == "false" {
			return tt.not(b)
		}
	}
	if a.id > b.id {
		a, b = b, a
	}
	return tt.mk("=", 0, "", 0, a, b)
}

func (tt *termTable) ite(c, a, b *term) *term {
	if c.op == "true" {
		return a
	}
	if c.op == "false" {
		return b
	}
	if a == b {
		return a
	}
	if a.isBool() {
		if a.op == "true" && b.op == "false" {
			return c
		}
		if a.op == "false" && b.op == "true" {
			return tt.not(c)
		}
	}
	return tt.mk("ite", a.width, "", 0, c, a, b)
}

// cmp builds a comparison; op is one of < <= > >=.
func (tt *termTable) cmp(op string, signed bool, a, b *term) *term {
	if a.isConst() && b.isConst() {
		var r bool
		if signed {
			x, y := signExt(a.cval, a.width), signExt(b.cval, b.width)
			switch op {
			case "<":
				r = x < y
			case "<=":
				r = x <= y
			case ">":
				r = x > y
			case ">=":
				r = x >= y
			}
		} else {
			x, y := a.cval, b.cval
			switch op {
			case "<":
				r = x < y
			case "<=":
				r = x <= y
			case ">":
				r = x > y
			case ">=":
				r = x >= y
			}
		}
		return tt.tBool(r)
	}
	if a == b {
		return tt.tBool(op == "<=" || op == ">=")
	}
	var smt string
	switch op {
	case "<":
		smt = "bvult"
	case "<=":
		smt = "bvule"
	case ">":
		smt = "bvugt"
	case ">=":
		smt = "bvuge"
	}
	if signed {
		smt = "bvs" + smt[3:]
	}
	return tt.mk(smt, 0, "", 0, a, b)
}

// arith builds a bit-vector operation with constant folding.
func (tt *termTable) arith(op string, signed bool, a, b *term) *term {
	w := a.width
	if a.isConst() && b.isConst() {
		x, y := a.cval, b.cval
		var r uint64
		ok := true
		switch op {
		case "bvadd":
			r = x + y
		case "bvsub":
			r = x - y
		case "bvmul":
			r = x * y
		case "bvand":
			r = x & y
		case "bvor":
			r = x | y
		case "bvxor":
			r = x ^ y
		case "bvshl":
			if y >= 64 {
				r = 0
			} else {
				r = x << y
			}
		case "bvlshr":
			if y >= 64 {
				r = 0
			} else {
				r = x >> y
			}
		default:
			ok = false
		}
		if ok {
			return tt.tConst(r, w)
		}
	}
	if op == "bvadd" {
		if a.isConst() && a.cval == 0 {
			return b
		}
		if b.isConst() && b.cval == 0 {
			return a
		}
	}
	if op == "bvsub" && b.isConst() && b.cval == 0 {
		return a
	}
	return tt.mk(op, w, "", 0, a, b)
}

func (tt *termTable) neg(a *term) *term {
	if a.isConst() {
		return tt.tConst(-a.cval, a.width)
	}
	return tt.mk("bvneg", a.width, "", 0, a)
}

func (tt *termTable) bvnot(a *term) *term {
	if a.isConst() {
		return tt.tConst(^a.cval, a.width)
	}
	return tt.mk("bvnot", a.width, "", 0, a)
}

// resize converts a to width w (sign- or zero-extending, or truncating).
func (tt *termTable) resize(a *term, w int, signed bool) *term {
	if a.width == w {
		return a
	}
	if a.isConst() {
		if w > a.width && signed {
			return tt.tConst(uint64(signExt(a.cval, a.width)), w)
		}
		return tt.tConst(a.cval, w)
	}
	if w < a.width {
		return tt.mk("extract", w, "", 0, a)
	}
	if signed {
		return tt.mk("sign_extend", w, "", 0, a)
	}
	return tt.mk("zero_extend", w, "", 0, a)
}

// smtExpr renders the node (children by reference name).
func (t *term) smtExpr() string {
	ref := func(a *term) string { return a.ref() }
	switch t.op {
	case "var":
		return t.name
	case "true", "false":
		return t.op
	case "const":
		return fmt.Sprintf("(_ bv%d %d)", t.cval, t.width)
	case "extract":
		return fmt.Sprintf("((_ extract %d 0) %s)", t.width-1, ref(t.args[0]))
	case "sign_extend", "zero_extend":
		return fmt.Sprintf("((_ %s %d) %s)", t.op, t.width-t.args[0].width, ref(t.args[0]))
	}
	var sb strings.Builder
	sb.WriteByte('(')
	sb.WriteString(t.op)
	for _, a := range t.args {
		sb.WriteByte(' ')
		sb.WriteString(ref(a))
	}
	sb.WriteByte(')')
	return sb.String()
}

// ref is how a term is referenced in other expressions.
func (t *term) ref() string {
	switch t.op {
	case "var":
		return t.name
	case "true", "false":
		return t.op
	case "const":
		return fmt.Sprintf("(_ bv%d %d)", t.cval, t.width)
	}
	return "t" + strconv.Itoa(t.id)
}

// String renders a term fully inlined (for diagnostics; may be large).
func (t *term) String() string {
	switch t.op {
	case "var", "true", "false", "const":
		return t.ref()
	}
	var sb strings.Builder
	sb.WriteByte('(')
	sb.WriteString(t.op)
	for _, a := range t.args {
		sb.WriteByte(' ')
		if sb.Len() > 400 {
			sb.WriteString("...")
			break
		}
		sb.WriteString(a.String())
	}
	sb.WriteByte(')')
	return sb.String()
}
