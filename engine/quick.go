package main

// A finite-domain front end: branch queries whose answer already follows from
// the equalities, disequalities and bounds asserted on this path are answered
// without a solver call. It only ever answers when certain (three-valued
// evaluation); everything else goes to the solver. Assertions (vAssert) that
// it cannot evaluate to true always go to the solver.

type varInfo struct {
	pinned   bool
	val      uint64
	hasRange bool
	lo, hi   int64 // signed range (for 64-bit ints)
	excl     map[uint64]bool
}

type quick struct {
	vars  map[*term]*varInfo
	epoch int
	memo  map[*term]qres
	memoE int
}

type qres struct {
	v     uint64
	known bool
}

func newQuick() *quick { return &quick{vars: map[*term]*varInfo{}} }

func (q *quick) info(v *term) *varInfo {
	vi := q.vars[v]
	if vi == nil {
		vi = &varInfo{}
		q.vars[v] = vi
	}
	return vi
}

func (q *quick) pin(v *term, val uint64) {
	vi := q.info(v)
	vi.pinned, vi.val = true, val
	q.epoch++
}

func (q *quick) tighten(vi *varInfo, v *term) {
	if vi.pinned || !vi.hasRange || v.width != 64 {
		return
	}
	for vi.lo <= vi.hi && vi.excl[uint64(vi.lo)] {
		vi.lo++
	}
	for vi.lo <= vi.hi && vi.excl[uint64(vi.hi)] {
		vi.hi--
	}
	if vi.lo == vi.hi {
		vi.pinned, vi.val = true, uint64(vi.lo)
		return
	}
	if vi.hi >= vi.lo && uint64(vi.hi)-uint64(vi.lo) < 64 {
		n, last := 0, int64(0)
		for x := vi.lo; x <= vi.hi; x++ {
			if !vi.excl[uint64(x)] {
				n++
				last = x
			}
		}
		if n == 1 {
			vi.pinned, vi.val = true, uint64(last)
		}
	}
}

// learn records what an asserted term tells about variables.
func (q *quick) learn(t *term, positive bool) {
	switch t.op {
	case "not":
		q.learn(t.args[0], !positive)
	case "and":
		if positive {
			q.learn(t.args[0], true)
			q.learn(t.args[1], true)
		}
	case "or":
		if !positive {
			q.learn(t.args[0], false)
			q.learn(t.args[1], false)
		}
	case "var":
		if t.width == 0 {
			if positive {
				q.pin(t, 1)
			} else {
				q.pin(t, 0)
			}
		}
	case "=":
		a, b := t.args[0], t.args[1]
		if a.op == "const" && b.op == "var" {
			a, b = b, a
		}
		if a.op == "var" && b.op == "const" {
			if positive {
				q.pin(a, b.cval)
			} else {
				vi := q.info(a)
				if vi.excl == nil {
					vi.excl = map[uint64]bool{}
				}
				vi.excl[b.cval] = true
				q.tighten(vi, a)
				q.epoch++
			}
		}
	case "bvsle", "bvslt", "bvsge", "bvsgt":
		a, b := t.args[0], t.args[1]
		op := t.op
		if !positive {
			switch op {
			case "bvsle":
				op = "bvsgt"
			case "bvslt":
				op = "bvsge"
			case "bvsge":
				op = "bvslt"
			case "bvsgt":
				op = "bvsle"
			}
		}
		if a.op == "const" && b.op == "var" {
			a, b = b, a
			switch op {
			case "bvsle":
				op = "bvsge"
			case "bvslt":
				op = "bvsgt"
			case "bvsge":
				op = "bvsle"
			case "bvsgt":
				op = "bvslt"
			}
		}
		if a.op == "var" && b.op == "const" && a.width == 64 {
			c := int64(b.cval)
			vi := q.info(a)
			if !vi.hasRange {
				vi.hasRange, vi.lo, vi.hi = true, -1<<63, 1<<63-1
			}
			switch op {
			case "bvsle":
				if c < vi.hi {
					vi.hi = c
				}
			case "bvslt":
				if c-1 < vi.hi {
					vi.hi = c - 1
				}
			case "bvsge":
				if c > vi.lo {
					vi.lo = c
				}
			case "bvsgt":
				if c+1 > vi.lo {
					vi.lo = c + 1
				}
			}
			q.tighten(vi, a)
			q.epoch++
		}
	}
}

// eval: three-valued evaluation under the recorded knowledge.
func (q *quick) eval(t *term) (uint64, bool) {
	if q.memoE != q.epoch || q.memo == nil {
		q.memo = map[*term]qres{}
		q.memoE = q.epoch
	}
	if r, ok := q.memo[t]; ok {
		return r.v, r.known
	}
	v, k := q.eval1(t)
	q.memo[t] = qres{v, k}
	return v, k
}

func b2u(b bool) uint64 {
	if b {
		return 1
	}
	return 0
}

func (q *quick) eval1(t *term) (uint64, bool) {
	switch t.op {
	case "true":
		return 1, true
	case "false":
		return 0, true
	case "const":
		return t.cval, true
	case "var":
		if vi := q.vars[t]; vi != nil && vi.pinned {
			return vi.val, true
		}
		return 0, false
	case "not":
		v, k := q.eval(t.args[0])
		return 1 - v, k
	case "and":
		a, ka := q.eval(t.args[0])
		b, kb := q.eval(t.args[1])
		if ka && a == 0 || kb && b == 0 {
			return 0, true
		}
		if ka && kb {
			return 1, true
		}
		return 0, false
	case "or":
		a, ka := q.eval(t.args[0])
		b, kb := q.eval(t.args[1])
		if ka && a == 1 || kb && b == 1 {
			return 1, true
		}
		if ka && kb {
			return 0, true
		}
		return 0, false
	case "ite":
		c, kc := q.eval(t.args[0])
		if kc {
			if c == 1 {
				return q.eval(t.args[1])
			}
			return q.eval(t.args[2])
		}
		a, ka := q.eval(t.args[1])
		b, kb := q.eval(t.args[2])
		if ka && kb && a == b {
			return a, true
		}
		return 0, false
	case "=":
		a, ka := q.eval(t.args[0])
		b, kb := q.eval(t.args[1])
		if ka && kb {
			return b2u(a == b), true
		}
		// var vs known value outside its domain
		x, y, ky, yv := t.args[0], t.args[1], kb, b
		if ka && !kb {
			x, y, ky, yv = t.args[1], t.args[0], ka, a
		}
		_ = y
		if ky && x.op == "var" {
			if vi := q.vars[x]; vi != nil {
				if vi.excl[yv] {
					return 0, true
				}
				if vi.hasRange && x.width == 64 && (int64(yv) < vi.lo || int64(yv) > vi.hi) {
					return 0, true
				}
			}
		}
		return 0, false
	case "bvslt", "bvsle", "bvsgt", "bvsge", "bvult", "bvule", "bvugt", "bvuge":
		a, ka := q.eval(t.args[0])
		b, kb := q.eval(t.args[1])
		w := t.args[0].width
		signed := t.op[2] == 's'
		if ka && kb {
			var r bool
			if signed {
				x, y := signExt(a, w), signExt(b, w)
				switch t.op[3:] {
				case "lt":
					r = x < y
				case "le":
					r = x <= y
				case "gt":
					r = x > y
				case "ge":
					r = x >= y
				}
			} else {
				switch t.op[3:] {
				case "lt":
					r = a < b
				case "le":
					r = a <= b
				case "gt":
					r = a > b
				case "ge":
					r = a >= b
				}
			}
			return b2u(r), true
		}
		// var with range vs constant (signed 64-bit only)
		if signed && w == 64 {
			if t.args[0].op == "var" && kb {
				if vi := q.vars[t.args[0]]; vi != nil && vi.hasRange {
					c := int64(b)
					switch t.op[3:] {
					case "lt":
						if vi.hi < c {
							return 1, true
						}
						if vi.lo >= c {
							return 0, true
						}
					case "le":
						if vi.hi <= c {
							return 1, true
						}
						if vi.lo > c {
							return 0, true
						}
					case "gt":
						if vi.lo > c {
							return 1, true
						}
						if vi.hi <= c {
							return 0, true
						}
					case "ge":
						if vi.lo >= c {
							return 1, true
						}
						if vi.hi < c {
							return 0, true
						}
					}
				}
			}
		}
		return 0, false
	case "bvadd", "bvsub", "bvmul", "bvand", "bvor", "bvxor":
		a, ka := q.eval(t.args[0])
		b, kb := q.eval(t.args[1])
		if ka && kb {
			var r uint64
			switch t.op {
			case "bvadd":
				r = a + b
			case "bvsub":
				r = a - b
			case "bvmul":
				r = a * b
			case "bvand":
				r = a & b
			case "bvor":
				r = a | b
			case "bvxor":
				r = a ^ b
			}
			return r & mask(t.width), true
		}
		return 0, false
	case "extract":
		a, ka := q.eval(t.args[0])
		if ka {
			return a & mask(t.width), true
		}
	case "zero_extend":
		a, ka := q.eval(t.args[0])
		if ka {
			return a, true
		}
	case "sign_extend":
		a, ka := q.eval(t.args[0])
		if ka {
			return uint64(signExt(a, t.args[0].width)) & mask(t.width), true
		}
	}
	return 0, false
}
