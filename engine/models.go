package main

// Harness intrinsics and models of library functions (DESIGN.md §2.4, §2.5).
// Every model here is part of the claim of any check that hits it; the set
// actually hit is reported per run ("functions_executed" lists them).

import (
	"fmt"
	"go/ast"
	"go/token"
	"go/types"
	"path/filepath"
	"sort"
	"strconv"
	"strings"
	"unicode"
	"unicode/utf8"

	"golang.org/x/tools/go/ssa"
)

var harnessIntrinsics = map[string]intrinsic{}

func init() {
	h := harnessIntrinsics
	h["vInt"] = func(fr *frame, a []value) value {
		px := fr.i.px
		name := px.freshName(a[0].(string))
		lo, hi := int64(a[1].(int)), int64(a[2].(int))
		if lo == hi {
			return int(lo)
		}
		v := px.tt.tVar(name, 64)
		px.vars = append(px.vars, v)
		px.ensureDefined(v)
		px.assume(px.tt.and(px.tt.cmp(">=", true, v, px.tt.tConst(uint64(lo), 64)), px.tt.cmp("<=", true, v, px.tt.tConst(uint64(hi), 64))))
		return sym{t: v, kind: types.Int, px: px}
	}
	h["vBool"] = func(fr *frame, a []value) value {
		px := fr.i.px
		v := px.tt.tVar(px.freshName(a[0].(string)), 0)
		px.vars = append(px.vars, v)
		px.ensureDefined(v)
		return sym{t: v, kind: types.Bool, px: px}
	}
	h["vByte"] = func(fr *frame, a []value) value {
		px := fr.i.px
		v := px.tt.tVar(px.freshName(a[0].(string)), 8)
		px.vars = append(px.vars, v)
		px.ensureDefined(v)
		lo, hi := uint64(a[1].(uint8)), uint64(a[2].(uint8))
		px.assume(px.tt.and(px.tt.cmp(">=", false, v, px.tt.tConst(lo, 8)), px.tt.cmp("<=", false, v, px.tt.tConst(hi, 8))))
		return sym{t: v, kind: types.Uint8, px: px}
	}
	// vStr(name, n, lo, hi): symbolic string of n bytes each in [lo,hi]
	h["vStr"] = func(fr *frame, a []value) value {
		px := fr.i.px
		base := px.freshName(a[0].(string))
		n := int(asInt64(a[1]))
		lo, hi := uint64(a[2].(uint8)), uint64(a[3].(uint8))
		s := symstr{px: px}
		for i := 0; i < n; i++ {
			v := px.tt.tVar(fmt.Sprintf("%s_%d", base, i), 8)
			px.vars = append(px.vars, v)
			px.ensureDefined(v)
			px.assume(px.tt.and(px.tt.cmp(">=", false, v, px.tt.tConst(lo, 8)), px.tt.cmp("<=", false, v, px.tt.tConst(hi, 8))))
			s.b = append(s.b, sym{t: v, kind: types.Uint8, px: px})
		}
		return normStr(s)
	}
	h["vAssume"] = func(fr *frame, a []value) value {
		px := fr.i.px
		t, _ := toTerm(px, a[0])
		px.assume(t)
		return nil
	}
	h["vAssert"] = func(fr *frame, a []value) value {
		px := fr.i.px
		t, _ := toTerm(px, a[0])
		px.check(t, a[1].(string), "")
		return nil
	}
	h["vAssertClass"] = func(fr *frame, a []value) value {
		px := fr.i.px
		t, _ := toTerm(px, a[0])
		px.check(t, a[1].(string), a[2].(string))
		return nil
	}
	bin := func(f func(tt *termTable, x, y *term) *term) intrinsic {
		return func(fr *frame, a []value) value {
			px := fr.i.px
			x, _ := toTerm(px, a[0])
			y, _ := toTerm(px, a[1])
			return fromTerm(px, f(px.tt, x, y), types.Bool)
		}
	}
	h["vAnd"] = bin(func(tt *termTable, x, y *term) *term { return tt.and(x, y) })
	h["vOr"] = bin(func(tt *termTable, x, y *term) *term { return tt.or(x, y) })
	h["vImplies"] = bin(func(tt *termTable, x, y *term) *term { return tt.or(tt.not(x), y) })
	h["vIff"] = bin(func(tt *termTable, x, y *term) *term { return tt.eq(x, y) })
	h["vNot"] = func(fr *frame, a []value) value {
		px := fr.i.px
		x, _ := toTerm(px, a[0])
		return fromTerm(px, px.tt.not(x), types.Bool)
	}
	h["vIte"] = func(fr *frame, a []value) value {
		px := fr.i.px
		c, _ := toTerm(px, a[0])
		x, k := toTerm(px, a[1])
		y, _ := toTerm(px, a[2])
		return fromTerm(px, px.tt.ite(c, x, y), k)
	}
	h["vIteB"] = h["vIte"]
	h["vEqStr"] = func(fr *frame, a []value) value {
		px := fr.i.px
		return fromTerm(px, symstrEq(px, toSymstr(px, a[0]), toSymstr(px, a[1])), types.Bool)
	}
	h["vCover"] = func(fr *frame, a []value) value {
		fr.i.px.covers[a[0].(string)] = true
		return nil
	}
	h["vNote"] = func(fr *frame, a []value) value {
		fr.i.px.notes = append(fr.i.px.notes, toString(a[0]))
		return nil
	}
	h["vParam"] = func(fr *frame, a []value) value {
		if v, ok := fr.i.px.ex.cfg.Params[a[0].(string)]; ok {
			return int(v)
		}
		return a[1]
	}
	h["vStub"] = func(fr *frame, a []value) value {
		f := a[1].(iface)
		fr.i.stubs[a[0].(string)] = f.v
		return nil
	}
	h["vUnstub"] = func(fr *frame, a []value) value {
		delete(fr.i.stubs, a[0].(string))
		return nil
	}
	h["vConc"] = func(fr *frame, a []value) value {
		return int(asInt64(a[0]))
	}
	h["vConcBool"] = func(fr *frame, a []value) value {
		return toBool(a[0])
	}
	h["vEngine"] = func(fr *frame, a []value) value { return true }
	// vIsConcrete(x) reports whether an int is concrete on this path
	h["vIsConcrete"] = func(fr *frame, a []value) value {
		_, s := a[0].(sym)
		return !s
	}
	// vPrune(): drop this path silently (outside the harness's input space)
	h["vPrune"] = func(fr *frame, a []value) value {
		panic(pathPruned{"vPrune"})
	}
	// vStepBudget(n, class, msg): from now until vStepBudgetEnd the code under test may
	// execute at most n SSA instructions; exceeding it is a violation (unwinding assertion).
	h["vStepBudget"] = func(fr *frame, a []value) value {
		px := fr.i.px
		px.flush()
		px.budgetOn = true
		px.budgetLimit = px.steps + asInt64(a[0])
		px.budgetClass = a[1].(string)
		px.budgetMsg = a[2].(string)
		return nil
	}
	h["vStepBudgetEnd"] = func(fr *frame, a []value) value {
		fr.i.px.budgetOn = false
		return nil
	}
	h["vSteps"] = func(fr *frame, a []value) value { return int(fr.i.px.steps) }
	// vSinkText(ptr) returns the text accumulated in a modelled writer
	h["vSinkText"] = func(fr *frame, a []value) value {
		if p, ok := a[0].(iface); ok {
			if pv, ok := p.v.(*value); ok {
				return normStr(symstr{b: fr.i.px.sink(pv), px: fr.i.px})
			}
		}
		return ""
	}
}

func (px *pathCtx) freshName(base string) string {
	base = sanitizeName(base)
	n := px.varKind[base]
	px.varKind[base] = n + 1
	if n == 0 {
		return base
	}
	return fmt.Sprintf("%s__%d", base, n)
}

func sanitizeName(s string) string {
	var sb strings.Builder
	for _, c := range s {
		if c >= 'a' && c <= 'z' || c >= 'A' && c <= 'Z' || c >= '0' && c <= '9' || c == '_' || c == '.' {
			sb.WriteRune(c)
		} else {
			sb.WriteByte('_')
		}
	}
	if sb.Len() == 0 {
		return "v"
	}
	return sb.String()
}

func (px *pathCtx) sink(p *value) []value {
	if px.sinks == nil {
		px.sinks = map[*value][]value{}
	}
	return px.sinks[p]
}

func (px *pathCtx) sinkAppend(p *value, s value) {
	if px.sinks == nil {
		px.sinks = map[*value][]value{}
	}
	px.sinks[p] = append(px.sinks[p], toSymstr(px, s).b...)
}

// ---------------------------------------------------------------------
// models of library functions

var modelLd *loaded

func goStrings(v value) ([]string, bool) {
	sl, ok := v.([]value)
	if !ok {
		return nil, v == nil
	}
	out := make([]string, len(sl))
	for i, e := range sl {
		s, ok := e.(string)
		if !ok {
			return nil, false
		}
		out[i] = s
	}
	return out, true
}

func fromGoStrings(ss []string) value {
	out := make([]value, len(ss))
	for i, s := range ss {
		out[i] = s
	}
	return out
}

func isVAbs(x iface) (structure, bool) {
	if x.t == nil {
		return nil, false
	}
	p, ok := x.t.(*types.Pointer)
	if !ok {
		return nil, false
	}
	n, ok := p.Elem().(*types.Named)
	if !ok || n.Obj().Name() != "vAbs" {
		return nil, false
	}
	pv, ok := x.v.(*value)
	if !ok || pv == nil {
		return nil, false
	}
	st, ok := (*pv).(structure)
	return st, ok
}

// containsAbs reports whether an interpreted go/types value is or contains an
// abstract type (vAbs) within pointer/slice/signature structure.
func containsAbs(x iface, depth int) bool {
	if x.t == nil || depth > 6 {
		return false
	}
	if _, ok := isVAbs(x); ok {
		return true
	}
	p, ok := x.v.(*value)
	if !ok || p == nil {
		return false
	}
	st, ok := (*p).(structure)
	if !ok {
		return false
	}
	switch namedOf(x.t) {
	case "go/types.Pointer":
		if b, ok := fieldByName(x.t, st, "base").(iface); ok {
			return containsAbs(b, depth+1)
		}
	case "go/types.Slice":
		if b, ok := fieldByName(x.t, st, "elem").(iface); ok {
			return containsAbs(b, depth+1)
		}
	case "go/types.Signature":
		for _, f := range []string{"params", "results"} {
			for _, v := range tupleVars(fieldByName(x.t, st, f)) {
				if containsAbs(varType(v), depth+1) {
					return true
				}
			}
		}
	}
	return false
}

func namedOf(t types.Type) string {
	if p, ok := t.(*types.Pointer); ok {
		if n, ok := p.Elem().(*types.Named); ok && n.Obj().Pkg() != nil {
			return n.Obj().Pkg().Path() + "." + n.Obj().Name()
		}
	}
	return ""
}

func fieldByName(t types.Type, st structure, name string) value {
	s := mustDeref(t).Underlying().(*types.Struct)
	for i := 0; i < s.NumFields(); i++ {
		if s.Field(i).Name() == name {
			return st[i]
		}
	}
	panic("fieldByName: no field " + name)
}

// identicalTerm models types.Identical over abstract types (vAbs: equality of
// ids) and the interpreted go/types constructors Pointer, Slice, Signature,
// Tuple; anything else is compared by object identity.
func identicalTerm(px *pathCtx, x, y iface) *term {
	tt := px.tt
	if x.t == nil || y.t == nil {
		return tt.tBool(x.t == nil && y.t == nil)
	}
	ax, okx := isVAbs(x)
	ay, oky := isVAbs(y)
	if okx && oky {
		a, _ := toTerm(px, ax[0])
		b, _ := toTerm(px, ay[0])
		return tt.eq(a, b)
	}
	if okx != oky {
		return tt.tFalse()
	}
	px1, ok1 := x.v.(*value)
	py1, ok2 := y.v.(*value)
	if ok1 && ok2 && px1 == py1 {
		return tt.tTrue()
	}
	nx, ny := namedOf(x.t), namedOf(y.t)
	if nx != ny {
		return tt.tFalse()
	}
	if !ok1 || !ok2 || px1 == nil || py1 == nil {
		return tt.tFalse()
	}
	sx, _ := (*px1).(structure)
	sy, _ := (*py1).(structure)
	switch nx {
	case "go/types.Pointer":
		return identicalTerm(px, fieldByName(x.t, sx, "base").(iface), fieldByName(y.t, sy, "base").(iface))
	case "go/types.Slice":
		return identicalTerm(px, fieldByName(x.t, sx, "elem").(iface), fieldByName(y.t, sy, "elem").(iface))
	case "go/types.Signature":
		vx, vy := fieldByName(x.t, sx, "variadic"), fieldByName(y.t, sy, "variadic")
		if vx != vy {
			return tt.tFalse()
		}
		acc := tt.tTrue()
		for _, f := range []string{"params", "results"} {
			acc = tt.and(acc, identicalTuples(px, fieldByName(x.t, sx, f), fieldByName(y.t, sy, f)))
		}
		return acc
	}
	panic(engineAbort{"types.Identical on unmodelled type kind " + nx})
}

func tupleVars(v value) []value {
	p, ok := v.(*value)
	if !ok || p == nil {
		return nil
	}
	st := (*p).(structure)
	vars, _ := st[0].([]value)
	return vars
}

func identicalTuples(px *pathCtx, a, b value) *term {
	va, vb := tupleVars(a), tupleVars(b)
	if len(va) != len(vb) {
		return px.tt.tFalse()
	}
	acc := px.tt.tTrue()
	for i := range va {
		// *Var -> object.typ
		ta := varType(va[i])
		tb := varType(vb[i])
		acc = px.tt.and(acc, identicalTerm(px, ta, tb))
	}
	return acc
}

// varType reads (*types.Var).object.typ from an interpreted value.
func varType(v value) iface {
	p := v.(*value)
	st := (*p).(structure) // Var{object, embedded, isField, used, origin}
	obj := st[0].(structure)
	// object{parent, pos, pkg, name, typ, order_, color_, scopePos_}
	return obj[4].(iface)
}

func typeStringModel(px *pathCtx, x iface) string {
	if x.t == nil {
		return "<nil>"
	}
	if a, ok := isVAbs(x); ok {
		if sv, ok := a[0].(sym); ok {
			if v, known := px.q.eval(sv.t); known {
				return fmt.Sprintf("T%d", signExt(v, sv.t.width))
			}
			return "T?"
		}
		return fmt.Sprintf("T%d", asInt64(a[0]))
	}
	if p, ok := x.v.(*value); ok && p != nil {
		if st, ok := (*p).(structure); ok {
			switch namedOf(x.t) {
			case "go/types.Pointer":
				return "*" + typeStringModel(px, fieldByName(x.t, st, "base").(iface))
			case "go/types.Slice":
				return "[]" + typeStringModel(px, fieldByName(x.t, st, "elem").(iface))
			case "go/types.Signature":
				return "func(...)"
			}
		}
	}
	return "<" + x.t.String() + ">"
}

// sprintfModel implements the subset of fmt verbs that matter when text is the
// subject (%s %q %v %d on strings and integers); any other argument becomes an
// opaque token.
func sprintfModel(px *pathCtx, format value, args []value) value {
	f, ok := format.(string)
	if !ok {
		return "<symbolic format>"
	}
	var out value = ""
	ai := 0
	add := func(v value) { out = symstrConcat(px, out, v) }
	for i := 0; i < len(f); i++ {
		c := f[i]
		if c != '%' {
			add(string(c))
			continue
		}
		i++
		if i >= len(f) {
			break
		}
		for i < len(f) && strings.IndexByte("+-# 0123456789.", f[i]) >= 0 {
			i++
		}
		if i >= len(f) {
			break
		}
		verb := f[i]
		if verb == '%' {
			add("%")
			continue
		}
		if ai >= len(args) {
			add("%!" + string(verb) + "(MISSING)")
			continue
		}
		arg := args[ai]
		ai++
		if it, ok := arg.(iface); ok {
			arg = it.v
		}
		switch a := arg.(type) {
		case string:
			if verb == 'q' {
				add(strconv.Quote(a))
			} else {
				add(a)
			}
		case symstr:
			if verb == 'q' {
				add("\"")
				add(a)
				add("\"")
			} else {
				add(a)
			}
		case int, int8, int16, int32, int64, uint, uint8, uint16, uint32, uint64:
			if verb == 'c' {
				add(string(rune(asInt64(a))))
			} else {
				add(strconv.FormatInt(asInt64(a), 10))
			}
		case bool:
			add(strconv.FormatBool(a))
		case sym:
			add("<sym>")
		default:
			add("<v>")
		}
	}
	return out
}

func unpackVariadic(v value) []value {
	if v == nil {
		return nil
	}
	sl, _ := v.([]value)
	return sl
}

func (ld *loaded) newError(fr *frame, text value) value {
	fn := ld.prog.ImportedPackage("errors").Func("New")
	if s, ok := text.(symstr); ok {
		_ = s
		text = "<symbolic text>"
	}
	return call(fr.i, fr, token.NoPos, fn, []value{text})
}

func registerAtomics(m map[string]intrinsic) {
	for _, ty := range []string{"Int32", "Int64", "Uint32", "Uint64", "Uintptr", "Pointer"} {
		m["sync/atomic.Load"+ty] = func(fr *frame, a []value) value { return *a[0].(*value) }
		m["sync/atomic.Store"+ty] = func(fr *frame, a []value) value { *a[0].(*value) = a[1]; return nil }
		m["sync/atomic.Swap"+ty] = func(fr *frame, a []value) value { p := a[0].(*value); old := *p; *p = a[1]; return old }
		m["sync/atomic.CompareAndSwap"+ty] = func(fr *frame, a []value) value {
			p := a[0].(*value)
			if *p == a[1] {
				*p = a[2]
				return true
			}
			return false
		}
	}
	for _, ty := range []string{"Int32", "Int64", "Uint32", "Uint64", "Uintptr"} {
		m["sync/atomic.Add"+ty] = func(fr *frame, a []value) value {
			p := a[0].(*value)
			*p = binop(token.ADD, nil, *p, a[1])
			return *p
		}
	}
}

func registerModels(ld *loaded) {
	modelLd = ld
	m := intrinsics
	registerAtomics(m)
	m["go/types.Identical"] = func(fr *frame, a []value) value {
		px := fr.i.px
		x, y := a[0].(iface), a[1].(iface)
		if !containsAbs(x, 0) && !containsAbs(y, 0) {
			// real go/types objects only: run the real comparer from its SSA
			if fn := ld.prog.ImportedPackage("go/types").Func("Identical"); fn != nil && fn.Blocks != nil {
				fr.i.skipIntrinsic = true
				return call(fr.i, fr, token.NoPos, fn, a)
			}
		}
		return fromTerm(px, identicalTerm(px, x, y), types.Bool)
	}
	m["go/types.TypeString"] = func(fr *frame, a []value) value {
		x := a[0].(iface)
		if x.t != nil && !containsAbs(x, 0) && fr.i.px.ex.cfg.Params["real_typestring"] != 0 {
			if fn := ld.prog.ImportedPackage("go/types").Func("TypeString"); fn != nil && fn.Blocks != nil {
				fr.i.skipIntrinsic = true
				return call(fr.i, fr, token.NoPos, fn, a)
			}
		}
		return typeStringModel(fr.i.px, x)
	}
	m["(golang.org/x/tools/go/types/typeutil.Hasher).Hash"] = func(fr *frame, a []value) value { return uint32(0) }
	m["fmt.Sprintf"] = func(fr *frame, a []value) value {
		return sprintfModel(fr.i.px, a[0], unpackVariadic(a[1]))
	}
	m["fmt.Sprint"] = func(fr *frame, a []value) value {
		var out value = ""
		for _, x := range unpackVariadic(a[0]) {
			out = symstrConcat(fr.i.px, out, sprintfModel(fr.i.px, "%v", []value{x}))
		}
		return out
	}
	m["fmt.Errorf"] = func(fr *frame, a []value) value {
		return ld.newError(fr, sprintfModel(fr.i.px, a[0], unpackVariadic(a[1])))
	}
	m["fmt.Fprintf"] = func(fr *frame, a []value) value {
		w := a[0].(iface)
		txt := sprintfModel(fr.i.px, a[1], unpackVariadic(a[2]))
		if p, ok := w.v.(*value); ok && w.t != nil {
			switch namedOf(w.t) {
			case "strings.Builder", "bytes.Buffer":
				fr.i.px.sinkAppend(p, txt)
			default:
				fr.i.px.outEvents = append(fr.i.px.outEvents, txt)
			}
		}
		return tuple{0, iface{}}
	}
	m["fmt.Fprint"] = func(fr *frame, a []value) value { return tuple{0, iface{}} }
	m["fmt.Fprintln"] = func(fr *frame, a []value) value { return tuple{0, iface{}} }
	m["fmt.Printf"] = func(fr *frame, a []value) value {
		fr.i.px.outEvents = append(fr.i.px.outEvents, sprintfModel(fr.i.px, a[0], unpackVariadic(a[1])))
		return tuple{0, iface{}}
	}
	m["fmt.Println"] = func(fr *frame, a []value) value { return tuple{0, iface{}} }
	m["log.Println"] = func(fr *frame, a []value) value { return nil }
	m["log.Printf"] = func(fr *frame, a []value) value { return nil }
	m["log.Print"] = func(fr *frame, a []value) value { return nil }
	m["(*strings.Builder).WriteString"] = func(fr *frame, a []value) value {
		fr.i.px.sinkAppend(a[0].(*value), a[1])
		return tuple{0, iface{}}
	}
	m["(*strings.Builder).WriteRune"] = func(fr *frame, a []value) value {
		px := fr.i.px
		if s, ok := a[1].(sym); ok {
			px.sinks0()[a[0].(*value)] = append(px.sink(a[0].(*value)), fromTerm(px, px.tt.resize(s.t, 8, false), types.Uint8))
			return tuple{1, iface{}}
		}
		px.sinkAppend(a[0].(*value), string(a[1].(int32)))
		return tuple{1, iface{}}
	}
	m["(*strings.Builder).WriteByte"] = func(fr *frame, a []value) value {
		px := fr.i.px
		px.sinks0()[a[0].(*value)] = append(px.sink(a[0].(*value)), a[1])
		return iface{}
	}
	m["(*strings.Builder).String"] = func(fr *frame, a []value) value {
		px := fr.i.px
		return normStr(symstr{b: append([]value(nil), px.sink(a[0].(*value))...), px: px})
	}
	m["(*strings.Builder).Len"] = func(fr *frame, a []value) value { return len(fr.i.px.sink(a[0].(*value))) }
	m["(*bytes.Buffer).WriteString"] = m["(*strings.Builder).WriteString"]
	m["(*bytes.Buffer).WriteByte"] = m["(*strings.Builder).WriteByte"]
	m["(*bytes.Buffer).String"] = m["(*strings.Builder).String"]
	m["(*bytes.Buffer).Len"] = m["(*strings.Builder).Len"]
	m["(*bytes.Buffer).Write"] = func(fr *frame, a []value) value {
		px := fr.i.px
		b, _ := a[1].([]value)
		px.sinks0()[a[0].(*value)] = append(px.sink(a[0].(*value)), b...)
		return tuple{len(b), iface{}}
	}
	m["(*bytes.Buffer).Bytes"] = func(fr *frame, a []value) value {
		s := fr.i.px.sink(a[0].(*value))
		if s == nil {
			return []value(nil)
		}
		return append([]value(nil), s...)
	}
	m["sort.Slice"] = func(fr *frame, a []value) value {
		sl := a[0].(iface).v.([]value)
		less := a[1]
		// insertion sort driven by the program's own comparator
		for i := 1; i < len(sl); i++ {
			for j := i; j > 0; j-- {
				if !toBool(call(fr.i, fr, token.NoPos, less, []value{j, j - 1})) {
					break
				}
				sl[j], sl[j-1] = sl[j-1], sl[j]
			}
		}
		return nil
	}
	m["sort.Strings"] = func(fr *frame, a []value) value {
		sl, _ := a[0].([]value)
		px := fr.i.px
		allConc := true
		for _, e := range sl {
			if _, ok := e.(string); !ok {
				allConc = false
			}
		}
		if allConc {
			sort.Slice(sl, func(i, j int) bool { return sl[i].(string) < sl[j].(string) })
			return nil
		}
		for i := 1; i < len(sl); i++ {
			for j := i; j > 0; j-- {
				lt := symstrLess(px, toSymstr(px, sl[j]), toSymstr(px, sl[j-1]))
				if !px.decide(lt) {
					break
				}
				sl[j], sl[j-1] = sl[j-1], sl[j]
			}
		}
		return nil
	}
	m["(*go/token.FileSet).Position"] = func(fr *frame, a []value) value {
		return zero(ld.prog.ImportedPackage("go/token").Type("Position").Type())
	}
	m["(go/token.Position).String"] = func(fr *frame, a []value) value { return "<pos>" }
	m["strings.EqualFold"] = func(fr *frame, a []value) value {
		x, okx := a[0].(string)
		y, oky := a[1].(string)
		if okx && oky {
			return strings.EqualFold(x, y)
		}
		px := fr.i.px
		return fromTerm(px, equalFoldTerm(px, toSymstr(px, a[0]), toSymstr(px, a[1])), types.Bool)
	}
	m["strconv.Quote"] = func(fr *frame, a []value) value {
		if s, ok := a[0].(string); ok {
			return strconv.Quote(s)
		}
		px := fr.i.px
		s := a[0].(symstr)
		// only plain printable ASCII without quote/backslash is modelled
		for _, c := range s.b {
			t := asciiByte(px, c)
			plain := px.tt.and(px.tt.cmp(">=", false, t, px.tt.tConst(0x20, 8)),
				px.tt.and(px.tt.not(px.tt.eq(t, px.tt.tConst('"', 8))), px.tt.and(px.tt.not(px.tt.eq(t, px.tt.tConst('\\', 8))), px.tt.not(px.tt.eq(t, px.tt.tConst(0x7f, 8))))))
			if !px.decide(plain) {
				panic(engineAbort{"strconv.Quote on symbolic byte needing escape not modelled"})
			}
		}
		return symstrConcat(px, symstrConcat(px, "\"", s), "\"")
	}
	m["go/token.Lookup"] = func(fr *frame, a []value) value {
		tokT := ld.prog.ImportedPackage("go/token").Type("Token").Type()
		_ = tokT
		if s, ok := a[0].(string); ok {
			return int(token.Lookup(s))
		}
		px := fr.i.px
		s := a[0].(symstr)
		res := px.tt.tConst(uint64(token.IDENT), 64)
		for tk := token.BREAK; tk <= token.VAR; tk++ {
			kw := tk.String()
			if len(kw) != len(s.b) {
				continue
			}
			res = px.tt.ite(symstrEq(px, s, toSymstr(px, kw)), px.tt.tConst(uint64(tk), 64), res)
		}
		return fromTerm(px, res, types.Int)
	}
	m["(go/token.Token).IsKeyword"] = func(fr *frame, a []value) value {
		if s, ok := a[0].(sym); ok {
			px := s.px
			return fromTerm(px, px.tt.and(px.tt.cmp(">=", true, s.t, px.tt.tConst(uint64(token.BREAK), 64)), px.tt.cmp("<=", true, s.t, px.tt.tConst(uint64(token.VAR), 64))), types.Bool)
		}
		return token.Token(asInt64(a[0])).IsKeyword()
	}
	m["unicode/utf8.DecodeRuneInString"] = func(fr *frame, a []value) value {
		if s, ok := a[0].(string); ok {
			r, n := utf8.DecodeRuneInString(s)
			return tuple{r, n}
		}
		px := fr.i.px
		s := a[0].(symstr)
		if len(s.b) == 0 {
			return tuple{utf8.RuneError, 0}
		}
		if u, ok := s.b[0].(uint8); ok && u < 0x80 {
			return tuple{int32(u), 1}
		}
		if _, ok := s.b[0].(uint8); ok {
			// concrete non-ASCII lead byte: decode natively if the whole prefix is concrete
			buf := []byte{}
			for _, c := range s.b {
				u, ok := c.(uint8)
				if !ok {
					break
				}
				buf = append(buf, u)
			}
			r, n := utf8.DecodeRune(buf)
			return tuple{r, n}
		}
		t := asciiByte(px, s.b[0])
		return tuple{fromTerm(px, px.tt.resize(t, 32, false), types.Int32), 1}
	}
	uni := func(f func(px *pathCtx, r *term) *term, nat func(rune) bool) intrinsic {
		return func(fr *frame, a []value) value {
			if s, ok := a[0].(sym); ok {
				return fromTerm(s.px, f(s.px, s.t), types.Bool)
			}
			return nat(a[0].(int32))
		}
	}
	m["unicode.IsUpper"] = uni(isUpperTerm, unicode.IsUpper)
	m["unicode.IsLower"] = uni(isLowerTerm, unicode.IsLower)
	m["unicode.ToLower"] = func(fr *frame, a []value) value {
		if s, ok := a[0].(sym); ok {
			return fromTerm(s.px, toLowerTerm(s.px, s.t), types.Int32)
		}
		return unicode.ToLower(a[0].(int32))
	}
	m["unicode.ToUpper"] = func(fr *frame, a []value) value {
		if s, ok := a[0].(sym); ok {
			return fromTerm(s.px, toUpperTerm(s.px, s.t), types.Int32)
		}
		return unicode.ToUpper(a[0].(int32))
	}
	m["strconv.AppendInt"] = func(fr *frame, a []value) value {
		buf, _ := a[0].([]value)
		s := strconv.FormatInt(asInt64(a[1]), int(asInt64(a[2])))
		out := append([]value(nil), buf...)
		for i := 0; i < len(s); i++ {
			out = append(out, s[i])
		}
		return out
	}
	m["strings.Title"] = func(fr *frame, a []value) value {
		if s, ok := a[0].(string); ok {
			return strings.Title(s)
		}
		px := fr.i.px
		s := a[0].(symstr)
		if len(s.b) == 0 {
			return ""
		}
		// single-word ASCII identifiers only: upper-case the first byte
		nb := append([]value(nil), s.b...)
		t := asciiByte(px, nb[0])
		nb[0] = fromTerm(px, toUpperTerm(px, t), types.Uint8)
		return normStr(symstr{b: nb, px: px})
	}
	// substring search on symbolic strings (concrete lengths): non-forking ite chains
	matchAt := func(px *pathCtx, s symstr, sep symstr, k int) *term {
		acc := px.tt.tTrue()
		for j := range sep.b {
			x, _ := toTerm(px, s.b[k+j])
			y, _ := toTerm(px, sep.b[j])
			acc = px.tt.and(acc, px.tt.eq(x, y))
		}
		return acc
	}
	symSearch := func(name string, last bool) intrinsic {
		return func(fr *frame, a []value) value {
			if findPx(a[0]) == nil && findPx(a[1]) == nil {
				return nativeTable[name](a)
			}
			px := fr.i.px
			s, sep := toSymstr(px, a[0]), toSymstr(px, a[1])
			res := px.tt.tConst(^uint64(0), 64) // -1
			n := len(s.b) - len(sep.b)
			if last {
				for k := 0; k <= n; k++ {
					res = px.tt.ite(matchAt(px, s, sep, k), px.tt.tConst(uint64(k), 64), res)
				}
			} else {
				for k := n; k >= 0; k-- {
					res = px.tt.ite(matchAt(px, s, sep, k), px.tt.tConst(uint64(k), 64), res)
				}
			}
			return fromTerm(px, res, types.Int)
		}
	}
	m["strings.LastIndex"] = symSearch("strings.LastIndex", true)
	m["strings.Index"] = symSearch("strings.Index", false)
	m["strings.HasPrefix"] = func(fr *frame, a []value) value {
		if findPx(a[0]) == nil && findPx(a[1]) == nil {
			return strings.HasPrefix(a[0].(string), a[1].(string))
		}
		px := fr.i.px
		s, sep := toSymstr(px, a[0]), toSymstr(px, a[1])
		if len(sep.b) > len(s.b) {
			return false
		}
		return fromTerm(px, matchAt(px, s, sep, 0), types.Bool)
	}
	m["strings.HasSuffix"] = func(fr *frame, a []value) value {
		if findPx(a[0]) == nil && findPx(a[1]) == nil {
			return strings.HasSuffix(a[0].(string), a[1].(string))
		}
		px := fr.i.px
		s, sep := toSymstr(px, a[0]), toSymstr(px, a[1])
		if len(sep.b) > len(s.b) {
			return false
		}
		return fromTerm(px, matchAt(px, s, sep, len(s.b)-len(sep.b)), types.Bool)
	}
	m["go/ast.IsExported"] = func(fr *frame, a []value) value {
		if s, ok := a[0].(string); ok {
			return ast.IsExported(s)
		}
		px := fr.i.px
		s := a[0].(symstr)
		if len(s.b) == 0 {
			return false
		}
		return fromTerm(px, isUpperTerm(px, asciiByte(px, s.b[0])), types.Bool)
	}
}

func (px *pathCtx) sinks0() map[*value][]value {
	if px.sinks == nil {
		px.sinks = map[*value][]value{}
	}
	return px.sinks
}

// nativeFallback: pure library functions executed natively on concrete
// arguments (a symbolic argument makes the call unmodelled).
func nativeFallback(name string) intrinsic {
	f, ok := nativeTable[name]
	if !ok {
		return nil
	}
	return func(fr *frame, a []value) (res value) {
		for _, x := range a {
			if findPx(x) != nil {
				panic(engineAbort{"unmodelled call with symbolic argument: " + name})
			}
			if sl, ok := x.([]value); ok {
				for _, e := range sl {
					if findPx(e) != nil {
						panic(engineAbort{"unmodelled call with symbolic argument: " + name})
					}
				}
			}
		}
		return f(a)
	}
}

var nativeTable = map[string]func(a []value) value{
	"strings.Join": func(a []value) value {
		ss, _ := goStrings(a[0])
		return strings.Join(ss, a[1].(string))
	},
	"strings.LastIndex":  func(a []value) value { return strings.LastIndex(a[0].(string), a[1].(string)) },
	"strings.Index":      func(a []value) value { return strings.Index(a[0].(string), a[1].(string)) },
	"strings.HasPrefix":  func(a []value) value { return strings.HasPrefix(a[0].(string), a[1].(string)) },
	"strings.HasSuffix":  func(a []value) value { return strings.HasSuffix(a[0].(string), a[1].(string)) },
	"strings.Contains":   func(a []value) value { return strings.Contains(a[0].(string), a[1].(string)) },
	"strings.TrimPrefix": func(a []value) value { return strings.TrimPrefix(a[0].(string), a[1].(string)) },
	"strings.TrimSuffix": func(a []value) value { return strings.TrimSuffix(a[0].(string), a[1].(string)) },
	"strings.TrimSpace":  func(a []value) value { return strings.TrimSpace(a[0].(string)) },
	"strings.ToLower":    func(a []value) value { return strings.ToLower(a[0].(string)) },
	"strings.ToUpper":    func(a []value) value { return strings.ToUpper(a[0].(string)) },
	"strings.Replace": func(a []value) value {
		return strings.Replace(a[0].(string), a[1].(string), a[2].(string), int(asInt64(a[3])))
	},
	"strings.Split": func(a []value) value { return fromGoStrings(strings.Split(a[0].(string), a[1].(string))) },
	"strconv.Itoa":  func(a []value) value { return strconv.Itoa(int(asInt64(a[0]))) },
	"strconv.FormatInt":  func(a []value) value { return strconv.FormatInt(asInt64(a[0]), int(asInt64(a[1]))) },
	"strconv.FormatUint": func(a []value) value { return strconv.FormatUint(uint64(asInt64(a[0])), int(asInt64(a[1]))) },
	"strings.Repeat":     func(a []value) value { return strings.Repeat(a[0].(string), int(asInt64(a[1]))) },
	"go/token.IsIdentifier": func(a []value) value { return token.IsIdentifier(a[0].(string)) },
	"go/token.IsKeyword":    func(a []value) value { return token.IsKeyword(a[0].(string)) },
	"unicode.IsLetter":      func(a []value) value { return unicode.IsLetter(a[0].(int32)) },
	"unicode.IsDigit":       func(a []value) value { return unicode.IsDigit(a[0].(int32)) },
	"unicode.IsSpace":       func(a []value) value { return unicode.IsSpace(a[0].(int32)) },
	"path/filepath.Base": func(a []value) value { return filepath.Base(a[0].(string)) },
	"path/filepath.Dir":  func(a []value) value { return filepath.Dir(a[0].(string)) },
	"path/filepath.Join": func(a []value) value {
		ss, _ := goStrings(a[0])
		return filepath.Join(ss...)
	},
	"unicode/utf8.RuneCountInString": func(a []value) value { return utf8.RuneCountInString(a[0].(string)) },
	"(reflect.StructTag).Get": func(a []value) value {
		return structTagGet(a[0].(string), a[1].(string))
	},
}

func structTagGet(tag, key string) string {
	// copy of reflect.StructTag.Lookup
	for tag != "" {
		i := 0
		for i < len(tag) && tag[i] == ' ' {
			i++
		}
		tag = tag[i:]
		if tag == "" {
			break
		}
		i = 0
		for i < len(tag) && tag[i] > ' ' && tag[i] != ':' && tag[i] != '"' && tag[i] != 0x7f {
			i++
		}
		if i == 0 || i+1 >= len(tag) || tag[i] != ':' || tag[i+1] != '"' {
			break
		}
		name := string(tag[:i])
		tag = tag[i+1:]
		i = 1
		for i < len(tag) && tag[i] != '"' {
			if tag[i] == '\\' {
				i++
			}
			i++
		}
		if i >= len(tag) {
			break
		}
		qvalue := string(tag[:i+1])
		tag = tag[i+1:]
		if key == name {
			value, err := strconv.Unquote(qvalue)
			if err != nil {
				break
			}
			return value
		}
	}
	return ""
}

// setupGlobals initialises the few package-level variables of the code under
// test that its init would set (init functions are not run by the executor).
func setupGlobals(ld *loaded, i *interpreter) {
	if f := ld.target.Func("vSetupGlobals"); f != nil {
		call(i, nil, token.NoPos, f, nil)
	}
}

var _ = ssa.NaiveForm


// zeroResultFns: environment/debug hooks whose result is irrelevant to the
// code under test; they return the zero value of their result type.
var zeroResultFns = map[string]bool{
	"internal/godebug.New":                         true,
	"(*internal/godebug.Setting).Value":            true,
	"(*internal/godebug.Setting).IncNonDefault":    true,
	"(*internal/godebug.Setting).Name":             true,
	"(*sync.Mutex).Lock":                           true,
	"(*sync.Mutex).Unlock":                         true,
	"(*sync.RWMutex).Lock":                         true,
	"(*sync.RWMutex).Unlock":                       true,
	"(*sync.RWMutex).RLock":                        true,
	"(*sync.RWMutex).RUnlock":                      true,
	"go/types.asGoVersion":                          true,
}

func zeroResults(fn *ssa.Function) value {
	res := fn.Signature.Results()
	switch res.Len() {
	case 0:
		return nil
	case 1:
		return zero(res.At(0).Type())
	}
	var t tuple
	for i := 0; i < res.Len(); i++ {
		t = append(t, zero(res.At(i).Type()))
	}
	return t
}


// preferNative: functions of interpreted packages that are nevertheless run
// natively on concrete arguments (they depend on unicode tables).
var preferNative = map[string]bool{"go/token.IsIdentifier": true, "go/token.IsKeyword": true}
