package main

// Symbolic strings: concrete length, each byte either a concrete uint8 or a
// symbolic (_ BitVec 8). All symbolic bytes are assumed ASCII by the
// operations that decode runes (a non-ASCII possibility aborts the path as
// inconclusive rather than being mis-modelled).

import (
	"fmt"
	"go/types"
)

type symstr struct {
	b  []value // uint8 or sym(kind Uint8)
	px *pathCtx
}

func toSymstr(px *pathCtx, v value) symstr {
	switch s := v.(type) {
	case symstr:
		return s
	case string:
		b := make([]value, len(s))
		for i := 0; i < len(s); i++ {
			b[i] = s[i]
		}
		return symstr{b: b, px: px}
	}
	panic(fmt.Sprintf("toSymstr: %T", v))
}

// normStr returns a plain Go string when every byte is concrete.
func normStr(s symstr) value {
	buf := make([]byte, len(s.b))
	for i, c := range s.b {
		u, ok := c.(uint8)
		if !ok {
			return s
		}
		buf[i] = u
	}
	return string(buf)
}

func symstrEq(px *pathCtx, a, b symstr) *term {
	if len(a.b) != len(b.b) {
		return px.tt.tFalse()
	}
	acc := px.tt.tTrue()
	for i := range a.b {
		x, _ := toTerm(px, a.b[i])
		y, _ := toTerm(px, b.b[i])
		acc = px.tt.and(acc, px.tt.eq(x, y))
	}
	return acc
}

func symstrConcat(px *pathCtx, a, b value) value {
	x, y := toSymstr(px, a), toSymstr(px, b)
	nb := make([]value, 0, len(x.b)+len(y.b))
	nb = append(nb, x.b...)
	nb = append(nb, y.b...)
	return normStr(symstr{b: nb, px: px})
}

// symstrLess builds the lexicographic comparison a < b.
func symstrLess(px *pathCtx, a, b symstr) *term {
	tt := px.tt
	// a < b  <=>  exists i: prefix equal up to i and (a[i] < b[i]) , or a is a proper prefix of b
	res := tt.tFalse()
	n := len(a.b)
	if len(b.b) < n {
		n = len(b.b)
	}
	if len(a.b) < len(b.b) {
		res = tt.tTrue() // all common bytes equal -> shorter is less
	}
	for i := n - 1; i >= 0; i-- {
		x, _ := toTerm(px, a.b[i])
		y, _ := toTerm(px, b.b[i])
		res = tt.ite(tt.eq(x, y), res, tt.cmp("<", false, x, y))
	}
	return res
}

// asciiByte makes sure byte c is ASCII on this path (forking if needed) and
// returns it as a term of width 8.
func asciiByte(px *pathCtx, c value) *term {
	t, _ := toTerm(px, c)
	if !px.decide(px.tt.cmp("<", false, t, px.tt.tConst(0x80, 8))) {
		panic(engineAbort{"symbolic string byte may be non-ASCII; rune decoding not modelled"})
	}
	return t
}

func isUpperTerm(px *pathCtx, r *term) *term {
	w := r.width
	return px.tt.and(px.tt.cmp(">=", false, r, px.tt.tConst('A', w)), px.tt.cmp("<=", false, r, px.tt.tConst('Z', w)))
}

func isLowerTerm(px *pathCtx, r *term) *term {
	w := r.width
	return px.tt.and(px.tt.cmp(">=", false, r, px.tt.tConst('a', w)), px.tt.cmp("<=", false, r, px.tt.tConst('z', w)))
}

func toLowerTerm(px *pathCtx, r *term) *term {
	return px.tt.ite(isUpperTerm(px, r), px.tt.arith("bvadd", false, r, px.tt.tConst(32, r.width)), r)
}

func toUpperTerm(px *pathCtx, r *term) *term {
	return px.tt.ite(isLowerTerm(px, r), px.tt.arith("bvsub", false, r, px.tt.tConst(32, r.width)), r)
}

// equalFoldTerm models strings.EqualFold for ASCII strings.
func equalFoldTerm(px *pathCtx, a, b symstr) *term {
	if len(a.b) != len(b.b) {
		return px.tt.tFalse()
	}
	acc := px.tt.tTrue()
	for i := range a.b {
		x := asciiByte(px, a.b[i])
		y := asciiByte(px, b.b[i])
		acc = px.tt.and(acc, px.tt.eq(toLowerTerm(px, x), toLowerTerm(px, y)))
	}
	return acc
}

// symstrIter ranges over a symbolic string assuming ASCII.
type symstrIter struct {
	s symstr
	i int
}

func (it *symstrIter) next() tuple {
	if it.i >= len(it.s.b) {
		return tuple{false, 0, int32(0)}
	}
	i := it.i
	it.i++
	c := it.s.b[i]
	if u, ok := c.(uint8); ok {
		if u >= 0x80 {
			panic(engineAbort{"non-ASCII byte in symbolic string range"})
		}
		return tuple{true, i, int32(u)}
	}
	t := asciiByte(it.s.px, c)
	return tuple{true, i, fromTerm(it.s.px, it.s.px.tt.resize(t, 32, false), types.Int32)}
}
