package main

// Symbolic extensions of the interpreter's operators.

import (
	"fmt"
	"go/token"
	"go/types"
)

func isSym(v value) bool {
	_, ok := v.(sym)
	return ok
}

// goKindOf returns the basic kind for a concrete interpreter scalar.
func goKindOf(v value) (types.BasicKind, uint64, bool) {
	switch x := v.(type) {
	case bool:
		if x {
			return types.Bool, 1, true
		}
		return types.Bool, 0, true
	case int:
		return types.Int, uint64(x), true
	case int8:
		return types.Int8, uint64(x), true
	case int16:
		return types.Int16, uint64(x), true
	case int32:
		return types.Int32, uint64(x), true
	case int64:
		return types.Int64, uint64(x), true
	case uint:
		return types.Uint, uint64(x), true
	case uint8:
		return types.Uint8, uint64(x), true
	case uint16:
		return types.Uint16, uint64(x), true
	case uint32:
		return types.Uint32, uint64(x), true
	case uint64:
		return types.Uint64, x, true
	case uintptr:
		return types.Uintptr, uint64(x), true
	}
	return 0, 0, false
}

// concreteOfKind builds the interpreter scalar of kind k from raw bits.
func concreteOfKind(k types.BasicKind, u uint64) value {
	switch k {
	case types.Bool, types.UntypedBool:
		return u != 0
	case types.Int, types.UntypedInt:
		return int(u)
	case types.Int8:
		return int8(u)
	case types.Int16:
		return int16(u)
	case types.Int32, types.UntypedRune:
		return int32(u)
	case types.Int64:
		return int64(u)
	case types.Uint:
		return uint(u)
	case types.Uint8:
		return uint8(u)
	case types.Uint16:
		return uint16(u)
	case types.Uint32:
		return uint32(u)
	case types.Uint64:
		return u
	case types.Uintptr:
		return uintptr(u)
	}
	panic(fmt.Sprintf("concreteOfKind: %v", k))
}

// toTerm lifts a value (sym or concrete scalar) to a term.
func toTerm(px *pathCtx, v value) (*term, types.BasicKind) {
	if s, ok := v.(sym); ok {
		return s.t, s.kind
	}
	k, u, ok := goKindOf(v)
	if !ok {
		panic(fmt.Sprintf("toTerm: not a scalar: %T", v))
	}
	if k == types.Bool {
		return px.tt.tBool(u != 0), k
	}
	return px.tt.tConst(u, kindWidth(k)), k
}

// fromTerm lowers a term back to a concrete value when it is constant.
func fromTerm(px *pathCtx, t *term, k types.BasicKind) value {
	switch t.op {
	case "true":
		return true
	case "false":
		return false
	case "const":
		return concreteOfKind(k, t.cval)
	}
	return sym{t: t, kind: k, px: px}
}

func pxOf(vs ...value) *pathCtx {
	for _, v := range vs {
		if s, ok := v.(sym); ok {
			return s.px
		}
	}
	return nil
}

func symBinop(op token.Token, x, y value) value {
	px := pxOf(x, y)
	// shifts: operand kinds may differ
	if op == token.SHL || op == token.SHR {
		a, ka := toTerm(px, x)
		b, kb := toTerm(px, y)
		b = px.tt.resize(b, a.width, false)
		_ = kb
		if op == token.SHL {
			return fromTerm(px, px.tt.arith("bvshl", false, a, b), ka)
		}
		if kindSigned(ka) {
			return fromTerm(px, px.tt.mk("bvashr", a.width, "", 0, a, b), ka)
		}
		return fromTerm(px, px.tt.arith("bvlshr", false, a, b), ka)
	}
	a, ka := toTerm(px, x)
	b, kb := toTerm(px, y)
	if a.width != b.width {
		panic(fmt.Sprintf("symBinop %s: width mismatch %v %v", op, ka, kb))
	}
	k := ka
	signed := kindSigned(k)
	tt := px.tt
	if a.isBool() {
		switch op {
		case token.EQL:
			return fromTerm(px, tt.eq(a, b), types.Bool)
		case token.NEQ:
			return fromTerm(px, tt.not(tt.eq(a, b)), types.Bool)
		case token.AND, token.LAND:
			return fromTerm(px, tt.and(a, b), types.Bool)
		case token.OR, token.LOR:
			return fromTerm(px, tt.or(a, b), types.Bool)
		}
		panic(fmt.Sprintf("symBinop: bad bool op %s", op))
	}
	switch op {
	case token.ADD:
		return fromTerm(px, tt.arith("bvadd", signed, a, b), k)
	case token.SUB:
		return fromTerm(px, tt.arith("bvsub", signed, a, b), k)
	case token.MUL:
		return fromTerm(px, tt.arith("bvmul", signed, a, b), k)
	case token.QUO:
		if signed {
			return fromTerm(px, tt.mk("bvsdiv", a.width, "", 0, a, b), k)
		}
		return fromTerm(px, tt.mk("bvudiv", a.width, "", 0, a, b), k)
	case token.REM:
		if signed {
			return fromTerm(px, tt.mk("bvsrem", a.width, "", 0, a, b), k)
		}
		return fromTerm(px, tt.mk("bvurem", a.width, "", 0, a, b), k)
	case token.AND:
		return fromTerm(px, tt.arith("bvand", signed, a, b), k)
	case token.OR:
		return fromTerm(px, tt.arith("bvor", signed, a, b), k)
	case token.XOR:
		return fromTerm(px, tt.arith("bvxor", signed, a, b), k)
	case token.AND_NOT:
		return fromTerm(px, tt.arith("bvand", signed, a, tt.bvnot(b)), k)
	case token.EQL:
		return fromTerm(px, tt.eq(a, b), types.Bool)
	case token.NEQ:
		return fromTerm(px, tt.not(tt.eq(a, b)), types.Bool)
	case token.LSS:
		return fromTerm(px, tt.cmp("<", signed, a, b), types.Bool)
	case token.LEQ:
		return fromTerm(px, tt.cmp("<=", signed, a, b), types.Bool)
	case token.GTR:
		return fromTerm(px, tt.cmp(">", signed, a, b), types.Bool)
	case token.GEQ:
		return fromTerm(px, tt.cmp(">=", signed, a, b), types.Bool)
	}
	panic(fmt.Sprintf("symBinop: unsupported op %s", op))
}

func symUnop(op token.Token, x sym) value {
	px := x.px
	switch op {
	case token.NOT:
		return fromTerm(px, px.tt.not(x.t), types.Bool)
	case token.SUB:
		return fromTerm(px, px.tt.neg(x.t), x.kind)
	case token.XOR:
		return fromTerm(px, px.tt.bvnot(x.t), x.kind)
	}
	panic(fmt.Sprintf("symUnop: unsupported op %s", op))
}

// symConv converts a symbolic integer to another integer kind.
func symConv(dst *types.Basic, x sym) value {
	px := x.px
	k := dst.Kind()
	if dst.Info()&types.IsInteger == 0 {
		if dst.Info()&types.IsString != 0 {
			// string(rune/byte): concretise
			v := px.concretize(x.t, kindSigned(x.kind))
			return string(rune(v))
		}
		panic(engineAbort{fmt.Sprintf("conversion of symbolic %v to %s not supported", x.kind, dst)})
	}
	return fromTerm(px, px.tt.resize(x.t, kindWidth(k), kindSigned(x.kind)), k)
}

// toBool resolves a (possibly symbolic) boolean by branching.
func toBool(v value) bool {
	switch b := v.(type) {
	case bool:
		return b
	case sym:
		return b.px.decide(b.t)
	}
	panic(fmt.Sprintf("toBool: %T", v))
}

// symEquals compares two values structurally, yielding bool or sym.
// It is used for == on values that may contain symbolic scalars.
func symEquals(t types.Type, x, y value) value {
	px := findPx(x)
	if px == nil {
		px = findPx(y)
	}
	if px == nil {
		return eqnil(t, x, y)
	}
	return fromTerm(px, symEqTerm(px, t, x, y), types.Bool)
}

func findPx(v value) *pathCtx {
	switch v := v.(type) {
	case sym:
		return v.px
	case symstr:
		for _, b := range v.b {
			if s, ok := b.(sym); ok {
				return s.px
			}
		}
		return v.px
	case structure:
		for _, f := range v {
			if p := findPx(f); p != nil {
				return p
			}
		}
	case array:
		for _, f := range v {
			if p := findPx(f); p != nil {
				return p
			}
		}
	case iface:
		return findPx(v.v)
	}
	return nil
}

func symEqTerm(px *pathCtx, t types.Type, x, y value) *term {
	if findPx(x) == nil && findPx(y) == nil {
		return px.tt.tBool(eqnil(t, x, y))
	}
	switch xv := x.(type) {
	case sym:
		a, _ := toTerm(px, x)
		b, _ := toTerm(px, y)
		return px.tt.eq(a, b)
	case symstr:
		return symstrEq(px, xv, toSymstr(px, y))
	case string:
		return symstrEq(px, toSymstr(px, x), toSymstr(px, y))
	case structure:
		yv := y.(structure)
		st := t.Underlying().(*types.Struct)
		acc := px.tt.tTrue()
		for i := range xv {
			if st.Field(i).Name() == "_" {
				continue
			}
			acc = px.tt.and(acc, symEqTerm(px, st.Field(i).Type(), xv[i], yv[i]))
		}
		return acc
	case array:
		yv := y.(array)
		et := t.Underlying().(*types.Array).Elem()
		acc := px.tt.tTrue()
		for i := range xv {
			acc = px.tt.and(acc, symEqTerm(px, et, xv[i], yv[i]))
		}
		return acc
	case iface:
		yv := y.(iface)
		if xv.t == nil || yv.t == nil {
			return px.tt.tBool(xv.t == nil && yv.t == nil)
		}
		if !types.Identical(xv.t, yv.t) {
			return px.tt.tFalse()
		}
		return symEqTerm(px, xv.t, xv.v, yv.v)
	}
	if _, ok := y.(sym); ok {
		a, _ := toTerm(px, x)
		b, _ := toTerm(px, y)
		return px.tt.eq(a, b)
	}
	return px.tt.tBool(eqnil(t, x, y))
}
