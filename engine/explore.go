package main

// Path exploration by stateless re-execution with a decision prefix.

import (
	"fmt"
	"sort"
	"strings"
	"sync"
	"time"
)

// Engine-level control flow (never seen by the interpreted program).
type engineAbort struct{ reason string }   // inconclusive: unmodelled call, solver unknown, budget
type pathPruned struct{ reason string }    // vAssume(false): path silently dropped
type pathViolation struct{ msg string }    // a vAssert failed (model already recorded)
type pathDone struct{}                     // harness asked to stop this path normally

type decision struct {
	Conc bool  `json:"c,omitempty"` // concretisation (V is the value, B = "equals V" side)
	B    bool  `json:"b"`
	V    int64 `json:"v,omitempty"`
}

type violation struct {
	Msg       string            `json:"msg"`
	Class     string            `json:"class"`
	Model     map[string]int64  `json:"model"`
	Decisions []decision        `json:"decisions"`
	Covers    []string          `json:"covers"`
	Notes     []string          `json:"notes,omitempty"`
	Panic     bool              `json:"panic,omitempty"`
}

type pathCtx struct {
	ex      *explorer
	sv      *solver
	tt      *termTable
	prefix  []decision
	pos     int
	taken   []decision
	defined map[int]bool
	pcCount int
	vars    []*term
	varKind map[string]int // width
	steps   int64
	covers  map[string]bool
	notes   []string
	asserts int
	concSites int
	// per-path scratch for models
	store map[string]value
	fnCalls map[string]int
	sinks map[*value][]value
	outEvents []value
	q *quick
	budgetOn bool
	budgetLimit int64
	budgetMsg, budgetClass string
	pending []pendingAssert
	quickHits int
}

type sample struct {
	Model  map[string]int64 `json:"model"`
	Covers []string         `json:"covers"`
	Notes  []string         `json:"notes,omitempty"`
}

type pendingAssert struct {
	c          *term
	msg, class string
}

type explorer struct {
	cfg       *runConfig
	mu        sync.Mutex
	cond      *sync.Cond
	queue     [][]decision
	active    int
	stopped   bool
	paths     int
	pruned    int
	completed int
	violations []violation
	inconclusive map[string]int
	covers    map[string]int
	samples   []sample
	sampleHash []uint64
	sampleDecs [][]decision
	asserts   int
	decisions int
	steps     int64
	fnCalls   map[string]int
	maxDepth  int
	queries, qsat, qunsat, qunknown int
	solverWall time.Duration
	start time.Time
}

func newExplorer(cfg *runConfig) *explorer {
	ex := &explorer{cfg: cfg, inconclusive: map[string]int{}, covers: map[string]int{}, fnCalls: map[string]int{}}
	ex.cond = sync.NewCond(&ex.mu)
	ex.queue = [][]decision{nil}
	return ex
}

func (px *pathCtx) ensureDefined(t *term) {
	if px.defined[t.id] {
		return
	}
	// iterative post-order to avoid deep recursion on long chains
	type fr struct {
		t *term
		i int
	}
	stk := []fr{{t, 0}}
	for len(stk) > 0 {
		top := &stk[len(stk)-1]
		if px.defined[top.t.id] {
			stk = stk[:len(stk)-1]
			continue
		}
		if top.i < len(top.t.args) {
			a := top.t.args[top.i]
			top.i++
			if !px.defined[a.id] {
				stk = append(stk, fr{a, 0})
			}
			continue
		}
		tt := top.t
		switch tt.op {
		case "var":
			px.sv.send(fmt.Sprintf("(declare-const %s %s)", tt.name, tt.sort()))
		case "true", "false", "const":
		default:
			px.sv.send(fmt.Sprintf("(define-fun t%d () %s %s)", tt.id, tt.sort(), tt.smtExpr()))
		}
		px.defined[tt.id] = true
		stk = stk[:len(stk)-1]
	}
}

func (px *pathCtx) assertTerm(t *term) {
	if t.op == "true" {
		return
	}
	px.q.learn(t, true)
	px.ensureDefined(t)
	px.sv.send("(assert " + t.ref() + ")")
	px.pcCount++
}

// satWith reports whether pc ∧ t is satisfiable.
func (px *pathCtx) satWith(t *term) string {
	if t.op == "true" {
		return "sat" // pc is satisfiable by invariant
	}
	if t.op == "false" {
		return "unsat"
	}
	px.ensureDefined(t)
	px.sv.send("(push)")
	px.sv.send("(assert " + t.ref() + ")")
	r := px.sv.checkSat()
	px.sv.send("(pop)")
	if strings.HasPrefix(r, "unknown") {
		panic(engineAbort{"solver answered " + r})
	}
	return r
}

// decide resolves a branch on a symbolic boolean.
func (px *pathCtx) decide(c *term) bool {
	if c.op == "true" {
		return true
	}
	if c.op == "false" {
		return false
	}
	if v, known := px.q.eval(c); known {
		px.quickHits++
		return v == 1
	}
	if px.pos < len(px.prefix) {
		d := px.prefix[px.pos]
		px.pos++
		if d.Conc {
			panic(engineAbort{"decision prefix out of sync (expected branch, got concretisation)"})
		}
		px.taken = append(px.taken, d)
		if d.B {
			px.assertTerm(c)
		} else {
			px.assertTerm(px.tt.not(c))
		}
		return d.B
	}
	px.flush()
	px.pos++
	if len(px.taken) > px.ex.cfg.MaxDepth {
		panic(engineAbort{fmt.Sprintf("decision depth bound %d exceeded", px.ex.cfg.MaxDepth)})
	}
	nc := px.tt.not(c)
	if px.satWith(c) == "sat" {
		if px.satWith(nc) == "sat" {
			alt := append(append([]decision(nil), px.taken...), decision{B: false})
			px.ex.enqueue(alt)
		}
		px.taken = append(px.taken, decision{B: true})
		px.assertTerm(c)
		return true
	}
	px.taken = append(px.taken, decision{B: false})
	px.assertTerm(nc)
	return false
}

// concretize picks a concrete value for t, forking over the alternatives.
func (px *pathCtx) concretize(t *term, signed bool) int64 {
	if t.isConst() {
		if signed {
			return signExt(t.cval, t.width)
		}
		return int64(t.cval)
	}
	if v, known := px.q.eval(t); known {
		if signed {
			return signExt(v, t.width)
		}
		return int64(v)
	}
	px.concSites++
	for n := 0; ; n++ {
		if n > px.ex.cfg.MaxConc {
			panic(engineAbort{fmt.Sprintf("concretisation of %s exceeds %d values", t.String(), px.ex.cfg.MaxConc)})
		}
		if px.pos < len(px.prefix) {
			d := px.prefix[px.pos]
			px.pos++
			if !d.Conc {
				panic(engineAbort{"decision prefix out of sync (expected concretisation)"})
			}
			px.taken = append(px.taken, d)
			cv := px.tt.tConst(uint64(d.V), t.width)
			if d.B {
				px.assertTerm(px.tt.eq(t, cv))
				return d.V
			}
			px.assertTerm(px.tt.not(px.tt.eq(t, cv)))
			continue
		}
		px.flush()
		px.pos++
		// ask the solver for a value
		px.ensureDefined(t)
		r := px.sv.checkSat()
		if r != "sat" {
			panic(engineAbort{"solver answered " + r + " for a path condition assumed satisfiable"})
		}
		raw := px.sv.getValues([]string{t.ref()})
		toks := tokenize(raw)
		// ((<expr> <val>)) -- take the last value token(s)
		vals := parseValuesLoose(toks)
		var v int64
		if signed {
			v = signExt(vals, t.width)
		} else {
			v = int64(vals)
		}
		cv := px.tt.tConst(uint64(v), t.width)
		eq := px.tt.eq(t, cv)
		if px.satWith(px.tt.not(eq)) == "sat" {
			alt := append(append([]decision(nil), px.taken...), decision{Conc: true, V: v, B: false})
			px.ex.enqueue(alt)
		}
		px.taken = append(px.taken, decision{Conc: true, V: v, B: true})
		px.assertTerm(eq)
		return v
	}
}

// parseValuesLoose extracts the single value from ((expr val)).
func parseValuesLoose(toks []string) uint64 {
	// strip the trailing "))"; the value is either a literal token or ( _ bvN w )
	n := len(toks)
	for n > 0 && toks[n-1] == ")" {
		n--
	}
	if n == 0 {
		return 0
	}
	last := toks[n-1]
	var val uint64
	switch {
	case last == "true":
		return 1
	case last == "false":
		return 0
	case strings.HasPrefix(last, "#x"):
		fmt.Sscanf(last[2:], "%x", &val)
		return val
	case strings.HasPrefix(last, "#b"):
		for _, c := range last[2:] {
			val = val<<1 | uint64(c-'0')
		}
		return val
	}
	// ( _ bvN w : last is width, before it bvN
	if n >= 2 && strings.HasPrefix(toks[n-2], "bv") {
		fmt.Sscanf(toks[n-2][2:], "%d", &val)
	}
	return val
}

func (px *pathCtx) model() map[string]int64 {
	m := map[string]int64{}
	if len(px.vars) == 0 {
		return m
	}
	var names []string
	for _, v := range px.vars {
		px.ensureDefined(v)
		names = append(names, v.name)
	}
	raw := px.sv.getValues(names)
	vals := parseValues(raw)
	for _, v := range px.vars {
		u := vals[v.name]
		if v.width == 0 {
			m[v.name] = int64(u)
		} else {
			m[v.name] = signExt(u, v.width)
		}
	}
	return m
}

// check registers an assertion pc ⇒ c. Assertions are discharged in batches
// at the next solver-decided branch point or at the end of the path (flush);
// while a decision prefix is being replayed they were already discharged by
// the path that enqueued the prefix, under a path condition this path shares.
func (px *pathCtx) check(c *term, msg, class string) {
	if px.pos < len(px.prefix) {
		return
	}
	px.asserts++
	if c.op == "true" {
		return
	}
	if v, known := px.q.eval(c); known && v == 1 {
		return
	}
	px.pending = append(px.pending, pendingAssert{c, msg, class})
	if c.op == "false" {
		px.flush()
	}
}

// flush discharges the pending assertions against the current path condition.
func (px *pathCtx) flush() {
	if len(px.pending) == 0 {
		return
	}
	pend := px.pending
	px.pending = nil
	conj := px.tt.tTrue()
	for _, p := range pend {
		conj = px.tt.and(conj, p.c)
	}
	if px.checkOne(conj) == nil {
		return
	}
	for _, p := range pend {
		if m := px.checkOne(p.c); m != nil {
			px.recordViolation(p.msg, p.class, m, false)
			panic(pathViolation{p.msg})
		}
	}
	panic(engineAbort{"assertion batch failed but no single assertion did"})
}

// checkOne returns nil when pc ⇒ c, else a counter-model.
func (px *pathCtx) checkOne(c *term) map[string]int64 {
	nc := px.tt.not(c)
	if nc.op == "false" {
		return nil
	}
	px.ensureDefined(nc)
	px.sv.send("(push)")
	if nc.op != "true" {
		px.sv.send("(assert " + nc.ref() + ")")
	}
	r := px.sv.checkSat()
	if r == "sat" {
		m := px.model()
		px.sv.send("(pop)")
		return m
	}
	px.sv.send("(pop)")
	if r != "unsat" {
		panic(engineAbort{"solver answered " + r + " on an assertion"})
	}
	return nil
}

func (px *pathCtx) recordViolation(msg, class string, m map[string]int64, isPanic bool) {
	var cov []string
	for k := range px.covers {
		cov = append(cov, k)
	}
	sort.Strings(cov)
	if class == "" {
		class = msg
	}
	v := violation{Msg: msg, Class: class, Model: m, Decisions: append([]decision(nil), px.taken...), Covers: cov, Notes: append([]string(nil), px.notes...), Panic: isPanic}
	px.ex.mu.Lock()
	px.ex.violations = append(px.ex.violations, v)
	px.ex.mu.Unlock()
}

// currentModel returns a model of the current path condition.
func (px *pathCtx) currentModel() map[string]int64 {
	r := px.sv.checkSat()
	if r != "sat" {
		return nil
	}
	return px.model()
}

func (px *pathCtx) assume(c *term) {
	if c.op == "true" {
		return
	}
	if c.op == "false" {
		panic(pathPruned{"assume(false)"})
	}
	if v, known := px.q.eval(c); known {
		if v == 1 {
			return
		}
		panic(pathPruned{"assumption false"})
	}
	if px.pos < len(px.prefix) {
		// still following a prefix: the earlier run found it satisfiable here
		px.assertTerm(c)
		return
	}
	px.flush()
	if px.satWith(c) != "sat" {
		panic(pathPruned{"assumption unsatisfiable"})
	}
	px.assertTerm(c)
}

func (ex *explorer) enqueue(p []decision) {
	ex.mu.Lock()
	ex.queue = append(ex.queue, p)
	ex.mu.Unlock()
	ex.cond.Signal()
}

// next blocks until a prefix is available or exploration is finished.
func (ex *explorer) next() ([]decision, bool) {
	ex.mu.Lock()
	defer ex.mu.Unlock()
	for {
		if ex.stopped {
			return nil, false
		}
		if len(ex.queue) > 0 {
			// depth-first: take the most recent prefix
			p := ex.queue[len(ex.queue)-1]
			ex.queue = ex.queue[:len(ex.queue)-1]
			ex.active++
			return p, true
		}
		if ex.active == 0 {
			ex.cond.Broadcast()
			return nil, false
		}
		ex.cond.Wait()
	}
}

func (ex *explorer) done(px *pathCtx, outcome string, reason string) {
	ex.mu.Lock()
	defer ex.mu.Unlock()
	ex.active--
	ex.paths++
	switch outcome {
	case "ok":
		ex.completed++
	case "pruned":
		ex.pruned++
	case "violation":
	case "inconclusive":
		ex.inconclusive[reason]++
	}
	if outcome == "ok" || outcome == "violation" {
		for k := range px.covers {
			ex.covers[k]++
		}
	}
	ex.asserts += px.asserts
	ex.decisions += len(px.taken)
	ex.steps += px.steps
	if len(px.taken) > ex.maxDepth {
		ex.maxDepth = len(px.taken)
	}
	for k, n := range px.fnCalls {
		ex.fnCalls[k] += n
	}
	if ex.cfg.MaxPaths > 0 && ex.paths >= ex.cfg.MaxPaths && (len(ex.queue) > 0 || ex.active > 0) {
		if !ex.stopped {
			ex.inconclusive[fmt.Sprintf("path budget %d exhausted with work remaining", ex.cfg.MaxPaths)]++
		}
		ex.stopped = true
	}
	if ex.cfg.StopOnViolation > 0 && len(ex.violations) >= ex.cfg.StopOnViolation {
		ex.stopped = true
	}
	if ex.cfg.Deadline > 0 && time.Since(ex.start) > ex.cfg.Deadline && (len(ex.queue) > 0 || ex.active > 0) {
		if !ex.stopped {
			ex.inconclusive[fmt.Sprintf("time budget %s exhausted with work remaining", ex.cfg.Deadline)]++
		}
		ex.stopped = true
	}
	ex.cond.Broadcast()
}

// flushOnPanic discharges pending assertions when the target panicked; it
// reports true when one of them failed (that assertion is then the finding).
func (px *pathCtx) flushOnPanic() (failed bool) {
	defer func() {
		if r := recover(); r != nil {
			if _, ok := r.(pathViolation); ok {
				failed = true
				return
			}
			failed = false
		}
	}()
	px.flush()
	return false
}
