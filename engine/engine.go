package main

// gosym: symbolic execution of Go SSA (fork of x/tools/go/ssa/interp) against
// an SMT solver. See /verif/DESIGN.md §2.

import (
	"encoding/json"
	"flag"
	"fmt"
	"go/token"
	"go/types"
	"os"
	"path/filepath"
	"runtime"
	"runtime/debug"
	"sort"
	"strings"
	"sync"
	"time"

	"golang.org/x/tools/go/packages"
	"golang.org/x/tools/go/ssa"
	"golang.org/x/tools/go/ssa/ssautil"
)

type runConfig struct {
	Repo            string
	Pkg             string
	OverlayDirs     []string
	Entry           string
	Interp          []string
	InitPkgs        []string
	Workers         int
	MaxPaths        int
	MaxSteps        int64
	MaxDepth        int
	MaxConc         int
	StopOnViolation int
	Deadline        time.Duration
	Solver          string
	SolverTimeoutMs int
	Params          map[string]int64
	Tags            string
	Out             string
	Samples         int
	Trace           bool
	Batch           bool
	InitPrefix      string
	Replay          string // JSON file with decisions to follow once (debug)
	ExtraOverlay    map[string]string
	SolverLog       string
}

type runResult struct {
	Entry        string             `json:"entry"`
	Pkg          string             `json:"pkg"`
	Paths        int                `json:"paths"`
	Completed    int                `json:"completed"`
	Pruned       int                `json:"pruned"`
	Violations   []violation        `json:"violations"`
	Inconclusive map[string]int     `json:"inconclusive"`
	Covers       map[string]int     `json:"covers"`
	Asserts      int                `json:"assertions_discharged"`
	Decisions    int                `json:"decisions"`
	MaxDepth     int                `json:"max_depth"`
	Steps        int64              `json:"ssa_instructions_executed"`
	Queries      int                `json:"solver_queries"`
	QSat         int                `json:"solver_sat"`
	QUnsat       int                `json:"solver_unsat"`
	QUnknown     int                `json:"solver_unknown"`
	SolverWallS  float64            `json:"solver_wall_s"`
	WallS        float64            `json:"wall_s"`
	LoadS        float64            `json:"load_s"`
	Functions    map[string]int     `json:"functions_executed"`
	Samples      []sample           `json:"samples"`
	Params       map[string]int64   `json:"params"`
	Solver       string             `json:"solver"`
	Workers      int                `json:"workers"`
	Bounds       map[string]int64   `json:"bounds"`
	Error        string             `json:"error,omitempty"`
}

func mustDeref(t types.Type) types.Type {
	if p, ok := t.Underlying().(*types.Pointer); ok {
		return p.Elem()
	}
	panic(fmt.Sprintf("mustDeref: %v is not a pointer", t))
}

func isEnginePanic(p interface{}) bool {
	switch p.(type) {
	case engineAbort, pathPruned, pathViolation, pathDone:
		return true
	}
	return false
}

func fnKey(fn *ssa.Function) string { return fn.String() }

func (i *interpreter) allowed(fn *ssa.Function) bool { return true }

// concKey concretises a symbolic map key.
func concKey(k value) value {
	if s, ok := k.(sym); ok {
		v := s.px.concretize(s.t, kindSigned(s.kind))
		return concreteOfKind(s.kind, uint64(v))
	}
	if s, ok := k.(symstr); ok {
		// concretise every byte
		buf := make([]byte, len(s.b))
		for i, c := range s.b {
			if sb, ok := c.(sym); ok {
				buf[i] = byte(sb.px.concretize(sb.t, false))
			} else {
				buf[i] = c.(uint8)
			}
		}
		return string(buf)
	}
	return k
}

// binopSym dispatches binary operators, handling symbolic operands.
func binopSym(fr *frame, op token.Token, t types.Type, x, y value) value {
	_, sx := x.(sym)
	_, sy := y.(sym)
	if sx || sy {
		return symBinop(op, x, y)
	}
	_, ssx := x.(symstr)
	_, ssy := y.(symstr)
	if ssx || ssy {
		px := findPx(x)
		if px == nil {
			px = findPx(y)
		}
		if px == nil {
			px = fr.i.px
		}
		switch op {
		case token.ADD:
			return symstrConcat(px, x, y)
		case token.EQL:
			return fromTerm(px, symstrEq(px, toSymstr(px, x), toSymstr(px, y)), types.Bool)
		case token.NEQ:
			return fromTerm(px, px.tt.not(symstrEq(px, toSymstr(px, x), toSymstr(px, y))), types.Bool)
		case token.LSS:
			return fromTerm(px, symstrLess(px, toSymstr(px, x), toSymstr(px, y)), types.Bool)
		case token.GTR:
			return fromTerm(px, symstrLess(px, toSymstr(px, y), toSymstr(px, x)), types.Bool)
		case token.LEQ:
			return fromTerm(px, px.tt.not(symstrLess(px, toSymstr(px, y), toSymstr(px, x))), types.Bool)
		case token.GEQ:
			return fromTerm(px, px.tt.not(symstrLess(px, toSymstr(px, x), toSymstr(px, y))), types.Bool)
		}
		panic(engineAbort{"unsupported operator on symbolic string: " + op.String()})
	}
	if op == token.EQL || op == token.NEQ {
		switch x.(type) {
		case structure, array, iface:
			if findPx(x) != nil || findPx(y) != nil {
				r := symEquals(t, x, y)
				if op == token.NEQ {
					if b, ok := r.(bool); ok {
						return !b
					}
					return symUnop(token.NOT, r.(sym))
				}
				return r
			}
		}
	}
	return binop(op, t, x, y)
}

type intrinsic func(fr *frame, args []value) value

var intrinsics = map[string]intrinsic{}

// ---------------------------------------------------------------------

type loaded struct {
	prog    *ssa.Program
	pkgs    []*packages.Package
	target  *ssa.Package
	targets []*ssa.Package
	sizes   types.Sizes
	loadDur time.Duration
	built   map[string]bool
	loadErrs []string
}

func loadProgram(cfg *runConfig) (*loaded, error) {
	t0 := time.Now()
	overlay := map[string][]byte{}
	if cfg.Batch {
		return loadBatch(cfg, t0)
	}
	pkgDirOf := func(path string) (string, error) {
		pcfg0 := &packages.Config{Mode: packages.NeedName | packages.NeedFiles, Dir: cfg.Repo, Env: append(os.Environ(), "GOFLAGS=-mod=mod", "GOPROXY=off", "GOSUMDB=off")}
		meta, err := packages.Load(pcfg0, path)
		if err != nil || len(meta) == 0 || len(meta[0].GoFiles) == 0 {
			return "", fmt.Errorf("cannot locate package %s: %v", path, err)
		}
		return filepath.Dir(meta[0].GoFiles[0]), nil
	}
	for _, d := range cfg.OverlayDirs {
		target := cfg.Pkg
		if i := strings.Index(d, "=>"); i >= 0 {
			d, target = d[:i], d[i+2:]
		}
		pkgDir, err := pkgDirOf(target)
		if err != nil {
			return nil, err
		}
		ents, err := os.ReadDir(d)
		if err != nil {
			return nil, err
		}
		for _, e := range ents {
			n := e.Name()
			if !strings.HasSuffix(n, ".go") || strings.HasSuffix(n, "_native.go") || strings.HasSuffix(n, "_test.go") {
				continue
			}
			b, err := os.ReadFile(filepath.Join(d, n))
			if err != nil {
				return nil, err
			}
			overlay[filepath.Join(pkgDir, "zz_verif_"+n)] = b
		}
	}
	for k, v := range cfg.ExtraOverlay {
		b, err := os.ReadFile(v)
		if err != nil {
			return nil, err
		}
		overlay[k] = b
	}
	pcfg := &packages.Config{
		Mode:       packages.LoadAllSyntax,
		Dir:        cfg.Repo,
		BuildFlags: []string{"-tags=" + cfg.Tags},
		Overlay:    overlay,
		Env:        append(os.Environ(), "GOFLAGS=-mod=mod", "GOPROXY=off", "GOSUMDB=off"),
	}
	pkgs, err := packages.Load(pcfg, cfg.Pkg)
	if err != nil {
		return nil, err
	}
	var errs []string
	packages.Visit(pkgs, nil, func(p *packages.Package) {
		for _, e := range p.Errors {
			errs = append(errs, e.Error())
		}
	})
	if len(errs) > 0 {
		return nil, fmt.Errorf("load errors:\n%s", strings.Join(errs, "\n"))
	}
	prog, spkgs := ssautil.AllPackages(pkgs, ssa.InstantiateGenerics)
	if len(spkgs) == 0 || spkgs[0] == nil {
		return nil, fmt.Errorf("no SSA package")
	}
	ld := &loaded{prog: prog, pkgs: pkgs, target: spkgs[0], built: map[string]bool{}}
	ld.sizes = types.SizesFor("gc", "amd64")
	ld.target.Build()
	ld.built[ld.target.Pkg.Path()] = true
	for _, ip := range cfg.Interp {
		found := false
		for _, sp := range prog.AllPackages() {
			if sp.Pkg.Path() == ip {
				sp.Build()
				ld.built[ip] = true
				found = true
			}
		}
		if !found {
			return nil, fmt.Errorf("package to interpret not in program: %s", ip)
		}
	}
	ld.loadDur = time.Since(t0)
	return ld, nil
}

// registerHarnessIntrinsics binds intrinsic names to the functions declared in
// zz_verif_rt*.go of the target package.
func registerHarnessIntrinsics(ld *loaded) {
	for _, sp := range ld.prog.AllPackages() {
		if !ld.built[sp.Pkg.Path()] {
			continue
		}
		for _, m := range sp.Members {
			fn, ok := m.(*ssa.Function)
			if !ok {
				continue
			}
			if in, ok := harnessIntrinsics[fn.Name()]; ok {
				file := filepath.Base(ld.prog.Fset.Position(fn.Pos()).Filename)
				if strings.HasPrefix(file, "zz_verif_") || strings.HasPrefix(file, "vrt") {
					intrinsics[fnKey(fn)] = in
				}
			}
		}
	}
}

// runPath executes the entry function once along the given prefix.
func runPath(ld *loaded, ex *explorer, sv *solver, prefix []decision) (px *pathCtx, outcome, reason string) {
	sv.reset()
	px = &pathCtx{ex: ex, sv: sv, tt: newTermTable(), prefix: prefix, defined: map[int]bool{}, covers: map[string]bool{}, varKind: map[string]int{}, store: map[string]value{}, fnCalls: map[string]int{}, q: newQuick()}
	i := &interpreter{
		prog:    ld.prog,
		globals: make(map[*ssa.Global]*value),
		sizes:   ld.sizes,
		px:      px,
		stubs:   map[string]value{},
	}
	if ex.cfg.Trace {
		i.mode |= EnableTracing
	}
	if rp := ld.prog.ImportedPackage("runtime"); rp != nil {
		i.runtimeErrorString = rp.Type("errorString").Object().Type()
	}
	initReflect(i)
	outcome = "ok"
	func() {
		defer func() {
			r := recover()
			if r == nil {
				return
			}
			switch p := r.(type) {
			case engineAbort:
				outcome, reason = "inconclusive", p.reason
			case pathPruned:
				outcome, reason = "pruned", p.reason
			case pathViolation:
				outcome, reason = "violation", p.msg
			case pathDone:
				outcome = "ok"
			case targetPanic:
				// the program under test panicked: that is a finding in itself
				if px.flushOnPanic() {
					outcome, reason = "violation", "assertion (before panic)"
					return
				}
				msg := "panic: " + toString(p.v)
				outcome, reason = "violation", msg
				m := px.currentModel()
				px.recordViolation(msg, "panic", m, true)
			case runtime.Error:
				if px.flushOnPanic() {
					outcome, reason = "violation", "assertion (before panic)"
					return
				}
				msg := "runtime panic in target: " + p.Error()
				if ex.cfg.Trace {
					msg += "\n" + string(debug.Stack())
				}
				// interpreter-level runtime errors while executing target code mirror
				// target runtime panics (nil deref, index out of range, failed assertion)
				outcome, reason = "violation", msg
				m := px.currentModel()
				px.recordViolation(msg, "panic", m, true)
			case string:
				if px.flushOnPanic() {
					outcome, reason = "violation", "assertion (before panic)"
					return
				}
				msg := "panic: " + p
				outcome, reason = "violation", msg
				m := px.currentModel()
				px.recordViolation(msg, "panic", m, true)
			default:
				outcome, reason = "inconclusive", fmt.Sprintf("engine panic %T: %v\n%s", r, r, debug.Stack())
			}
		}()
		for _, ip := range ex.cfg.InitPkgs {
			sp := ld.prog.ImportedPackage(ip)
			if sp == nil {
				panic(engineAbort{"init package not found: " + ip})
			}
			i.initOnly = sp
			call(i, nil, token.NoPos, sp.Func("init"), nil)
			i.initOnly = nil
		}
		setupGlobals(ld, i)
		fn := ld.target.Func(ex.cfg.Entry)
		if fn == nil {
			panic(engineAbort{"entry function not found: " + ex.cfg.Entry})
		}
		call(i, nil, token.NoPos, fn, nil)
		px.flush()
	}()
	if outcome == "ok" && px.pos < len(px.prefix) {
		outcome, reason = "inconclusive", "path ended before its decision prefix was consumed (non-deterministic harness)"
	}
	return
}

func explore(ld *loaded, cfg *runConfig) *runResult {
	ex := newExplorer(cfg)
	ex.start = time.Now()
	var wg sync.WaitGroup
	var solvers []*solver
	var smu sync.Mutex
	for w := 0; w < cfg.Workers; w++ {
		wg.Add(1)
		go func(w int) {
			defer wg.Done()
			logp := ""
			if cfg.SolverLog != "" {
				logp = fmt.Sprintf("%s.%d", cfg.SolverLog, w)
			}
			sv, err := newSolver(cfg.Solver, cfg.SolverTimeoutMs, logp)
			if err != nil {
				ex.mu.Lock()
				ex.inconclusive["cannot start solver: "+err.Error()]++
				ex.mu.Unlock()
				return
			}
			smu.Lock()
			solvers = append(solvers, sv)
			smu.Unlock()
			for {
				prefix, ok := ex.next()
				if !ok {
					return
				}
				px, outcome, reason := runPath(ld, ex, sv, prefix)
				if outcome == "ok" && len(px.vars) > 0 && cfg.Samples > 0 {
					// deterministic sample choice: the paths with the smallest hash of their decision vector
					h := hashDecisions(px.taken)
					ex.mu.Lock()
					want := len(ex.samples) < cfg.Samples || h < ex.sampleHash[len(ex.sampleHash)-1]
					ex.mu.Unlock()
					if want {
						func() {
							defer func() { recover() }()
							if m := px.currentModel(); m != nil {
								var cov []string
								for k := range px.covers {
									cov = append(cov, k)
								}
								sort.Strings(cov)
								ex.mu.Lock()
								i := sort.Search(len(ex.sampleHash), func(i int) bool { return ex.sampleHash[i] >= h })
								ex.sampleHash = append(ex.sampleHash, 0)
								copy(ex.sampleHash[i+1:], ex.sampleHash[i:])
								ex.sampleHash[i] = h
								ex.samples = append(ex.samples, sample{})
								copy(ex.samples[i+1:], ex.samples[i:])
								ex.samples[i] = sample{Model: m, Covers: cov, Notes: px.notes}
								if len(ex.samples) > cfg.Samples {
									ex.samples = ex.samples[:cfg.Samples]
									ex.sampleHash = ex.sampleHash[:cfg.Samples]
								}
								ex.mu.Unlock()
							}
						}()
					}
				}
				if outcome == "inconclusive" && len(reason) > 600 {
					reason = reason[:600]
				}
				ex.done(px, outcome, reason)
			}
		}(w)
	}
	wg.Wait()
	res := &runResult{Entry: cfg.Entry, Pkg: cfg.Pkg, Paths: ex.paths, Completed: ex.completed, Pruned: ex.pruned,
		Violations: ex.violations, Inconclusive: ex.inconclusive, Covers: ex.covers, Asserts: ex.asserts,
		Decisions: ex.decisions, MaxDepth: ex.maxDepth, Steps: ex.steps, Functions: ex.fnCalls, Samples: ex.samples,
		Params: cfg.Params, Solver: cfg.Solver, Workers: cfg.Workers,
		Bounds: map[string]int64{"max_steps_per_path": cfg.MaxSteps, "max_decisions_per_path": int64(cfg.MaxDepth), "max_paths": int64(cfg.MaxPaths), "max_concretisations_per_site": int64(cfg.MaxConc)}}
	for _, sv := range solvers {
		res.Queries += sv.queries
		res.QSat += sv.sat
		res.QUnsat += sv.unsat
		res.QUnknown += sv.unknown
		res.SolverWallS += sv.wall.Seconds()
		sv.close()
	}
	if res.Violations == nil {
		res.Violations = []violation{}
	}
	sort.Slice(res.Violations, func(a, b int) bool { return fmt.Sprint(res.Violations[a].Decisions) < fmt.Sprint(res.Violations[b].Decisions) })
	res.WallS = time.Since(ex.start).Seconds()
	res.LoadS = ld.loadDur.Seconds()
	return res
}

// loadBatch loads every package matching cfg.Pkg (a pattern) below cfg.Repo.
func loadBatch(cfg *runConfig, t0 time.Time) (*loaded, error) {
	pcfg := &packages.Config{
		Mode:       packages.LoadAllSyntax,
		Dir:        cfg.Repo,
		BuildFlags: []string{"-tags=" + cfg.Tags},
		Env:        append(os.Environ(), "GOFLAGS=-mod=mod", "GOPROXY=off", "GOSUMDB=off"),
	}
	pkgs, err := packages.Load(pcfg, strings.Split(cfg.Pkg, ",")...)
	if err != nil {
		return nil, err
	}
	var errs []string
	bad := map[string]bool{}
	for _, p := range pkgs {
		for _, e := range p.Errors {
			errs = append(errs, e.Error())
			bad[p.PkgPath] = true
		}
	}
	prog, spkgs := ssautil.AllPackages(pkgs, ssa.InstantiateGenerics)
	ld := &loaded{prog: prog, pkgs: pkgs, built: map[string]bool{}, loadErrs: errs}
	ld.sizes = types.SizesFor("gc", "amd64")
	for i, sp := range spkgs {
		if sp == nil || bad[pkgs[i].PkgPath] {
			continue
		}
		sp.Build()
		ld.built[sp.Pkg.Path()] = true
		ld.targets = append(ld.targets, sp)
	}
	for _, ip := range cfg.Interp {
		for _, sp := range prog.AllPackages() {
			if sp.Pkg.Path() == ip || (strings.HasSuffix(ip, "/...") && strings.HasPrefix(sp.Pkg.Path(), strings.TrimSuffix(ip, "..."))) {
				sp.Build()
				ld.built[sp.Pkg.Path()] = true
			}
		}
	}
	ld.loadDur = time.Since(t0)
	return ld, nil
}

// corpusInits lists, in dependency order, the packages of the target's own
// module that must be initialised before the target (package-level values).
func corpusInits(ld *loaded, target *ssa.Package, prefix string) []string {
	var order []string
	seen := map[string]bool{}
	var visit func(p *types.Package)
	visit = func(p *types.Package) {
		if seen[p.Path()] || !strings.HasPrefix(p.Path(), prefix) {
			return
		}
		seen[p.Path()] = true
		for _, imp := range p.Imports() {
			visit(imp)
		}
		order = append(order, p.Path())
	}
	visit(target.Pkg)
	return order
}

type batchResult struct {
	Results  []*runResult `json:"results"`
	LoadErrs []string     `json:"load_errors"`
	LoadS    float64      `json:"load_s"`
	WallS    float64      `json:"wall_s"`
}

func runBatch(ld *loaded, cfg *runConfig) *batchResult {
	type job struct {
		target *ssa.Package
		entry  string
	}
	var jobs []job
	for _, t := range ld.targets {
		var names []string
		for name, m := range t.Members {
			if _, ok := m.(*ssa.Function); ok && strings.HasPrefix(name, cfg.Entry) {
				names = append(names, name)
			}
		}
		sort.Strings(names)
		for _, n := range names {
			jobs = append(jobs, job{t, n})
		}
	}
	t0 := time.Now()
	out := &batchResult{LoadErrs: ld.loadErrs, LoadS: ld.loadDur.Seconds()}
	results := make([]*runResult, len(jobs))
	var wg sync.WaitGroup
	ch := make(chan int)
	for w := 0; w < cfg.Workers; w++ {
		wg.Add(1)
		go func() {
			defer wg.Done()
			for ji := range ch {
				j := jobs[ji]
				c := *cfg
				c.Workers = 1
				c.Entry = j.entry
				c.InitPkgs = corpusInits(ld, j.target, cfg.InitPrefix)
				l2 := *ld
				l2.target = j.target
				r := explore(&l2, &c)
				r.Pkg = j.target.Pkg.Path()
				r.Functions = nil
				results[ji] = r
			}
		}()
	}
	for ji := range jobs {
		ch <- ji
	}
	close(ch)
	wg.Wait()
	out.Results = results
	out.WallS = time.Since(t0).Seconds()
	return out
}

func hashDecisions(ds []decision) uint64 {
	h := uint64(1469598103934665603)
	for _, d := range ds {
		x := uint64(d.V)*4 + 1
		if d.B {
			x += 2
		}
		if d.Conc {
			x += 1 << 40
		}
		h ^= x
		h *= 1099511628211
	}
	return h
}

type multiFlag []string

func (m *multiFlag) String() string     { return strings.Join(*m, ",") }
func (m *multiFlag) Set(s string) error { *m = append(*m, s); return nil }

func main() {
	cfg := &runConfig{Params: map[string]int64{}, ExtraOverlay: map[string]string{}}
	var overlays, params, extra multiFlag
	var interp, initp string
	var deadline string
	flag.StringVar(&cfg.Repo, "repo", "/repo", "repository root (module dir) to load")
	flag.StringVar(&cfg.Pkg, "pkg", "github.com/google/wire/internal/wire", "package containing the harness")
	flag.Var(&overlays, "overlay", "directory of harness .go files injected into the package (repeatable)")
	flag.Var(&extra, "overlay-file", "virtual=real file overlay (repeatable)")
	flag.StringVar(&cfg.Entry, "entry", "", "harness entry function")
	flag.StringVar(&interp, "interp", "", "comma-separated dependency packages interpreted from SSA")
	flag.StringVar(&initp, "init", "", "comma-separated packages whose init is interpreted first")
	flag.IntVar(&cfg.Workers, "workers", runtime.NumCPU(), "parallel workers")
	flag.IntVar(&cfg.MaxPaths, "max-paths", 2000000, "path budget (exceeding it is inconclusive)")
	flag.Int64Var(&cfg.MaxSteps, "max-steps", 3000000, "SSA instruction bound per path (unwinding bound)")
	flag.IntVar(&cfg.MaxDepth, "max-depth", 4000, "decision bound per path")
	flag.IntVar(&cfg.MaxConc, "max-conc", 64, "max values per concretisation site")
	flag.IntVar(&cfg.StopOnViolation, "stop-on-violation", 0, "stop after this many violations (0 = explore everything)")
	flag.StringVar(&deadline, "deadline", "", "wall-clock budget, e.g. 10m (exceeding it is inconclusive)")
	flag.StringVar(&cfg.Solver, "solver", "z3", "z3 | z3-new | cvc5")
	flag.IntVar(&cfg.SolverTimeoutMs, "solver-timeout-ms", 60000, "per-query solver timeout")
	flag.Var(&params, "param", "name=int harness parameter (vParam)")
	flag.StringVar(&cfg.Tags, "tags", "verif", "build tags")
	flag.StringVar(&cfg.Out, "out", "", "result JSON path")
	flag.IntVar(&cfg.Samples, "samples", 5, "number of path models to record as samples")
	flag.BoolVar(&cfg.Trace, "trace", false, "trace interpreter")
	flag.BoolVar(&cfg.Batch, "batch", false, "batch mode: -pkg is a pattern list below -repo, every function whose name starts with -entry is explored (one worker each)")
	flag.StringVar(&cfg.InitPrefix, "init-prefix", "example.com/corpus", "batch mode: packages with this path prefix get their init interpreted")
	flag.StringVar(&cfg.SolverLog, "solver-log", "", "write solver dialogue to this path prefix")
	genCopy := flag.String("gen-copyast", "", "write the generated H_copyast harness cases to this file and exit")
	flag.Parse()
	if *genCopy != "" {
		if err := genCopyAST(*genCopy); err != nil {
			fmt.Fprintln(os.Stderr, err)
			os.Exit(3)
		}
		return
	}
	cfg.OverlayDirs = overlays
	if interp != "" {
		cfg.Interp = strings.Split(interp, ",")
	}
	if initp != "" {
		cfg.InitPkgs = strings.Split(initp, ",")
	}
	for _, p := range params {
		kv := strings.SplitN(p, "=", 2)
		var v int64
		fmt.Sscanf(kv[1], "%d", &v)
		cfg.Params[kv[0]] = v
	}
	for _, e := range extra {
		kv := strings.SplitN(e, "=", 2)
		cfg.ExtraOverlay[kv[0]] = kv[1]
	}
	if deadline != "" {
		d, err := time.ParseDuration(deadline)
		if err != nil {
			fmt.Fprintln(os.Stderr, err)
			os.Exit(3)
		}
		cfg.Deadline = d
	}
	write := func(res *runResult) {
		b, _ := json.MarshalIndent(res, "", " ")
		if cfg.Out != "" {
			os.WriteFile(cfg.Out, b, 0644)
		} else {
			os.Stdout.Write(b)
			fmt.Println()
		}
	}
	ld, err := loadProgram(cfg)
	if err != nil {
		write(&runResult{Entry: cfg.Entry, Pkg: cfg.Pkg, Error: err.Error(), Inconclusive: map[string]int{"load failed": 1}, Violations: []violation{}})
		fmt.Fprintln(os.Stderr, "gosym: load failed:", err)
		os.Exit(2)
	}
	registerHarnessIntrinsics(ld)
	registerModels(ld)
	if cfg.Batch {
		br := runBatch(ld, cfg)
		b, _ := json.MarshalIndent(br, "", " ")
		if cfg.Out != "" {
			os.WriteFile(cfg.Out, b, 0644)
		} else {
			os.Stdout.Write(b)
		}
		nv, ni, np := 0, 0, 0
		for _, r := range br.Results {
			nv += len(r.Violations)
			ni += len(r.Inconclusive)
			np += r.Paths
		}
		fmt.Fprintf(os.Stderr, "gosym batch: drivers=%d paths=%d violations=%d inconclusive=%d load_errors=%d wall=%.1fs\n", len(br.Results), np, nv, ni, len(br.LoadErrs), br.WallS)
		return
	}
	res := explore(ld, cfg)
	write(res)
	fmt.Fprintf(os.Stderr, "gosym %s: paths=%d ok=%d pruned=%d violations=%d inconclusive=%d asserts=%d queries=%d wall=%.1fs\n",
		cfg.Entry, res.Paths, res.Completed, res.Pruned, len(res.Violations), len(res.Inconclusive), res.Asserts, res.Queries, res.WallS)
	switch {
	case len(res.Violations) > 0:
		os.Exit(1)
	case len(res.Inconclusive) > 0:
		for k, n := range res.Inconclusive {
			fmt.Fprintf(os.Stderr, "  inconclusive x%d: %s\n", n, k)
		}
		os.Exit(2)
	}
}
