#!/bin/bash
# seedbatch.sh <round suffix e.g. r6> [props...]: confirm + test the sub-agents' changes of one round, five at a time.
suf=$1; shift
props=${@:-C01 C02 C03 C04 C05 C06 C07 C08 C09 C10 C11 C12 C13 C14 C15 C16 C17 C18 C19 C20}
set -- $props
while [ $# -gt 0 ]; do
  group="$1 $2 $3 $4 $5"; shift 5 2>/dev/null || shift $#
  for p in $group; do
    [ -f /tmp/seedout/$p$suf/patch.diff ] || { echo "$p$suf: no patch yet"; continue; }
    ( /verif/lib/seedprocess.sh $p$suf $p > /tmp/seedout/$p$suf.result 2>&1 ) &
  done
  wait
done
for p in $props; do echo "== $p$suf: $(grep -h 'demo rc' /tmp/seedout/$p$suf.result 2>/dev/null | cut -c1-60) | $(grep -h "^$p rc=" /tmp/seedout/$p$suf.result 2>/dev/null | cut -c1-260)"; grep -h '^INCONCLUSIVE' /tmp/seedout/$p$suf.result 2>/dev/null | head -2 | cut -c1-200; done
