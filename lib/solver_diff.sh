#!/bin/bash
# Replays two harnesses through z3 4.8.12, z3 5.1 and cvc5 and prints the summaries
# (to be run once per encoding change; identical paths/verdicts expected).
cd "$(dirname "$0")/.."
I=go/types,golang.org/x/tools/go/types/typeutil,errors,go/token,go/ast
for sv in z3 z3-new cvc5; do
  for e in H_bpm H_sig; do
    ./bin/gosym -overlay harness/wire -entry $e -interp $I -solver $sv -workers 8 -out /dev/null 2>&1 | tail -1 | sed "s/^/$sv: /"
  done
done
