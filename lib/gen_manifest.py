#!/usr/bin/env python3
"""Regenerates MANIFEST.json from lib/props.py (checks) and lib/na.json (not_applicable)."""
import json, os, sys
VERIF = os.path.dirname(os.path.dirname(os.path.abspath(__file__)))
sys.path.insert(0, os.path.join(VERIF, 'lib'))
import props as P

man = {
    "version": 1,
    "setup_cmd": "cd /verif/engine && GOFLAGS=-mod=mod GOPROXY=off GOSUMDB=off GOTOOLCHAIN=local go build -o ../bin/gosym .",
    "hooks": {"guard": "verif",
              "enable": "no hook in /repo: harness files (/verif/harness/*) are injected into the packages under test by go/packages and `go test -overlay` overlays with build tag verif",
              "baseline_off_cmd": "cd /repo && go test -mod=mod -vet=off -count=1 -timeout 25m ./...",
              "source_commits": [], "add_only": True},
    "engines": [{"name": "gosym", "path": "/verif/engine",
                 "serves_properties": sorted(P.PROPS),
                 "kind_free_text": "symbolic executor for Go SSA (fork of x/tools go/ssa/interp with symbolic scalars/strings), decision-prefix path exploration, z3 over SMT-LIB2 pipes; regenerates the encoding from /repo's working tree on every run"}],
    "checks": [],
    "notes": "Exit 2 = inconclusive (unmodelled call, solver unknown, bound hit, unconfirmed counterexample): never a pass, never a VIOLATION. See DESIGN.md.",
    "not_applicable": json.load(open(os.path.join(VERIF, 'lib', 'na.json'))),
}
all_ids = [json.loads(l)['id'] for l in open(os.path.join(VERIF, 'properties.jsonl'))]


def technique_of(c):
    """The deciding method, composed from what the property's quick and thorough tiers actually run."""
    specs = list(c['quick']) + list(c['thorough'])
    labels = ' '.join(str(sp.get('label', '')) for sp in specs)
    parts = []
    if any(sp.get('kind') != 'custom' and not str(sp.get('label', '')).startswith('sideB') for sp in specs):
        parts.append('side A: bounded symbolic execution of Wire\'s own functions from go/ssa, branches and assertions decided by SMT (z3), counterexamples replayed natively')
    if 'sideB' in labels:
        parts.append('side B: translation validation - the injectors the real wire binary generates for an enumerated program family are executed symbolically (provider behaviour and fault schedules are solver variables; the accept/reject verdict and the compile step per program are concrete runs)')
    if 'cli_e2e' in labels:
        parts.append('supplement, NOT solver-decided: enumerated runs of the real binary (lib/cli_e2e.py)')
    if c.get('bounds_text', '').find('supplement (enumerated runs') >= 0:
        parts.append('supplement, NOT solver-decided: enumerated repeat / moved / alone / GOPATH+vendor / header runs of the real binary over the side-B corpus')
    return '; '.join(parts)
for pid in all_ids:
    if pid not in P.PROPS:
        continue
    c = P.PROPS[pid]
    man['checks'].append({
        "property_id": pid,
        "quick_cmd": "./check %s --tier quick" % pid,
        "thorough_cmd": "./check %s --tier thorough" % pid,
        "evidence_file": "/verif/evidence/%s.json" % pid,
        "replay_cmd_template": "./check %s --replay {path}" % pid,
        "engine": "gosym",
        "level_claimed": {"category": c['level'], "text": c.get('level_text', 'bounded symbolic model checking of the implementation: the anchor functions are executed from their SSA with symbolic inputs; every branch is decided by z3, every assertion is a validity query over the path condition; holds for all inputs within the stated bounds: ' + c.get('bounds_text', '')), "design_ref": c.get('design_ref', 'DESIGN.md §0 (row %s), §3, §4, §10' % pid)},
        "level_note": 'Assumed/trusted: ' + '; '.join(c.get('assumptions', [])) + '. Outside the claim: ' + c.get('outside', ''),
        "technique": technique_of(c),
    })
claimed = {c['property_id'] for c in man['checks']}
man['not_applicable'] = [n for n in man['not_applicable'] if n['property_id'] not in claimed]
missing = [p for p in all_ids if p not in claimed and p not in {n['property_id'] for n in man['not_applicable']}]
for p in missing:
    man['not_applicable'].append({"property_id": p, "reason": "check not built yet in this revision (work in progress; see DESIGN.md §11)"})
json.dump(man, open(os.path.join(VERIF, 'MANIFEST.json'), 'w'), indent=1)
print('checks:', sorted(claimed), 'n/a:', [n['property_id'] for n in man['not_applicable']])
