"""Side-B corpus: injector specs, their rendering to Go packages with
instrumented providers, and the spec-derived oracle tables (DESIGN.md §4)."""
import itertools, random, re

# node kinds
FUNC, WSTRUCT, VALUE, ARG, FIELD, BIND, IVALUE = 'func', 'wstruct', 'value', 'arg', 'field', 'bind', 'ivalue'


class Node:
    def __init__(self, kind, **kw):
        self.kind = kind
        self.deps = kw.get('deps', [])          # list of (node_idx, form) consumed, in parameter/field order
        self.has_err = kw.get('has_err', False)
        self.has_cleanup = kw.get('has_cleanup', False)
        self.ptr = kw.get('ptr', False)         # func/arg/value: provides *T instead of T
        self.ncomp = kw.get('ncomp', 1)         # >1: the provided type is a plain struct of ncomp base fields (arg/value/func)
        self.parent = kw.get('parent')          # field: (node_idx) of the struct source
        self.fieldno = kw.get('fieldno', 0)     # field: which component
        self.target = kw.get('target')          # bind: node idx of the concrete source
        self.extra_fields = kw.get('extra_fields', 0)   # wstruct: unselected extra fields (stay zero)
        self.prevented = kw.get('prevented', 0)  # wstruct: fields tagged wire:"-" (stay zero)
        self.star = kw.get('star', False)       # wstruct: use "*" selection
        self.valrecv = kw.get('valrecv', False)   # bind to a struct provider: the method has a value receiver although *S is bound
        self.fieldcase = kw.get('fieldcase', False)  # struct fields are named Fx / fx (differ only in case); components share one type
        self.variadic = kw.get('variadic', False)  # func: last parameter is variadic (...T of a slice-typed source)
        self.place = kw.get('place', 'direct')  # direct | set1 | set2 (nested in set1) | other (set in another package)
        self.name = kw.get('name')              # override of the Go identifier of the provider/type


class Spec:
    def __init__(self, nodes, result, ret_err=None, ret_cleanup=None, naming='plain', label='', expect='accept', family=''):
        self.nodes = nodes
        self.result = result            # (node_idx, form)
        self.ret_err = ret_err
        self.ret_cleanup = ret_cleanup
        self.naming = naming
        self.label = label
        self.expect = expect            # accept | reject
        self.family = family
        self.order = None               # permutation of Build arguments

    def needed(self):
        need = set()

        def visit(i):
            if i in need:
                return
            need.add(i)
            n = self.nodes[i]
            for d, _ in n.deps:
                visit(d)
            if n.kind == FIELD:
                visit(n.parent)
            if n.kind == BIND:
                visit(n.target)
        visit(self.result[0])
        return need

    def finalize(self):
        need = self.needed()
        ne = any(self.nodes[i].has_err for i in need if self.nodes[i].kind == FUNC)
        nc = any(self.nodes[i].has_cleanup for i in need if self.nodes[i].kind == FUNC)
        if self.ret_err is None:
            self.ret_err = ne
        if self.ret_cleanup is None:
            self.ret_cleanup = nc
        return self


# ------------------------------------------------------------------ naming

ADVERSARIAL = dict(
    # type names chosen so that Wire's derived local names collide with err, cleanup,
    # keywords, predeclared identifiers, numeric suffixes, each other
    types=['Err', 'Cleanup', 'Select', 'Var', 'String', 'Error', 'Type', 'Func', 'Cleanup2', 'Err2', 'Len', 'Nil', 'True', 'Int', 'Go', 'Map'],
)


class Namer:
    def __init__(self, spec):
        self.spec = spec
        self.adv = spec.naming == 'adversarial'

    def tname(self, k):
        n = self.spec.nodes[k]
        if n.name:
            return n.name
        if self.adv:
            return ADVERSARIAL['types'][k % len(ADVERSARIAL['types'])]
        return 'T%d' % k

    def comp_tname(self, k, j):
        if self.spec.nodes[k].fieldcase:
            j = 0
        return '%sC%d' % (self.tname(k), j)

    def fname(self, k):
        return 'New' + self.tname(k)

    def iname(self, k):
        return 'I' + self.tname(k)

    def argname(self, k, pos):
        if getattr(self.spec.nodes[k], 'blank', False):
            return '_'
        if self.adv:
            return ['err', 'cleanup', 'v', '_', 'string', 'error', 'vrt'][pos % 7]
        return 'a%d' % k


# ------------------------------------------------------------------ rendering

def go_type(spec, nm, k, form):
    """Go type expression a consumer of (k, form) declares."""
    n = spec.nodes[k]
    if n.kind == BIND or n.kind == IVALUE:
        return nm.iname(k)
    if n.kind == FIELD:
        p = spec.nodes[n.parent]
        base = nm.comp_tname(n.parent, n.fieldno)
        return ('*' if form == 'ptr' else '') + base
    base = nm.tname(k)
    return ('*' if form == 'ptr' else '') + base


CASE_NAMES = ['Fx', 'fx', 'FX', 'fX']


def fld(n, j):
    """Name of field j of the struct node n."""
    return CASE_NAMES[j] if getattr(n, 'fieldcase', False) else 'F%d' % j


def ids_expr(spec, nm, k, form, x):
    """Go expression of type []int listing the identity components of x."""
    n = spec.nodes[k]
    if n.kind in (BIND, IVALUE):
        return 'idsIface(%s)' % x
    if n.kind == FIELD:
        return 'ids%s%s(%s)' % ('P' if form == 'ptr' else '', nm.comp_tname(n.parent, n.fieldno), x)
    return 'ids%s%s(%s)' % ('P' if form == 'ptr' else '', nm.tname(k), x)


def ident_refs(spec, k, form=None):
    """Identity of the value node k provides, as a list of refs (node, comp) / ('const', c)."""
    n = spec.nodes[k]
    if n.kind == FUNC or n.kind == ARG:
        return [(k, j) for j in range(n.ncomp)]
    if n.kind == VALUE:
        return [('const', 700 + 10 * k + j) for j in range(n.ncomp)]
    if n.kind == IVALUE:
        return [('const', 700 + 10 * k)]
    if n.kind == BIND:
        return ident_refs(spec, n.target)
    if n.kind == FIELD:
        return [ident_refs(spec, n.parent)[n.fieldno]]
    if n.kind == WSTRUCT:
        refs = []
        for d, f in n.deps:
            refs += ident_refs(spec, d, f)
        refs += [('const', 0)] * (n.extra_fields + n.prevented)
        return refs
    raise ValueError(n.kind)


def ref_go(r):
    if r[0] == 'const':
        return 'vrt.Ref{Node: -1, Const: %d}' % r[1]
    return 'vrt.Ref{Node: %d, Comp: %d}' % r


def render_package(spec, pkgname, modpath, other_pkg=None):
    """Returns dict filename -> source for the package (and for the companion
    package that holds the 'other'-placed provider set, if any)."""
    spec.finalize()
    nm = Namer(spec)
    nodes = spec.nodes
    need = spec.needed()
    files = {}
    out = []
    w = out.append
    w('package %s\n' % pkgname)
    w('import "example.com/corpus/vrt"\n')
    w('var _ = vrt.Zero{}\n')
    if nm.adv:
        # package-level identifiers that Wire's invented names must neither capture nor be captured by
        w('var err error = &vrt.Err{ID: 99}\n')
        w('var cleanup = func() { panic("the user\'s own cleanup variable was called") }\n')
        w('var v, v2, arg, err2 = 1, 2, 3, 4\n')
        w('var _ = []interface{}{err, cleanup, v, v2, arg, err2}\n')
    helpers = []
    # ---- types
    for k, n in enumerate(nodes):
        if n.kind in (FUNC, ARG, VALUE):
            t = nm.tname(k)
            if n.ncomp == 1:
                w('type %s struct{ ID int }\n' % t)
                helpers.append('func ids%s(x %s) []int { return []int{x.ID} }' % (t, t))
            else:
                flds = []
                hl = []
                for j in range(n.ncomp):
                    ct = nm.comp_tname(k, j)
                    if not (n.fieldcase and j > 0):
                        w('type %s struct{ ID int }\n' % ct)
                        helpers.append('func ids%s(x %s) []int { return []int{x.ID} }' % (ct, ct))
                        helpers.append('func idsP%s(x *%s) []int { if x == nil { return []int{0} }; return []int{x.ID} }' % (ct, ct))
                    flds.append('%s %s' % (fld(n, j), ct))
                    hl.append('x.%s.ID' % fld(n, j))
                w('type %s struct{ %s }\n' % (t, '; '.join(flds)))
                helpers.append('func ids%s(x %s) []int { return []int{%s} }' % (t, t, ', '.join(hl)))
            helpers.append('func idsP%s(x *%s) []int { if x == nil { return make([]int, %d) }; return ids%s(*x) }' % (t, t, n.ncomp, t))
        elif n.kind == WSTRUCT:
            t = nm.tname(k)
            flds, parts = [], []
            for j, (d, f) in enumerate(n.deps):
                flds.append('%s %s' % (fld(n, j), go_type(spec, nm, d, f)))
                parts.append(ids_expr(spec, nm, d, f, 'x.%s' % fld(n, j)))
            for j in range(n.extra_fields):
                flds.append('X%d vrt.Zero' % j)
                parts.append('[]int{x.X%d.ID}' % j)
            for j in range(n.prevented):
                flds.append('P%d vrt.Zero `wire:"-"`' % j)
                parts.append('[]int{x.P%d.ID}' % j)
            w('type %s struct {\n\t%s\n}\n' % (t, '\n\t'.join(flds)))
            body = 'var r []int\n' + ''.join('\tr = append(r, %s...)\n' % p for p in parts) + '\treturn r'
            helpers.append('func ids%s(x %s) []int {\n\t%s\n}' % (t, t, body))
            ncomp = len(ident_refs(spec, k))
            helpers.append('func idsP%s(x *%s) []int { if x == nil { return make([]int, %d) }; return ids%s(*x) }' % (t, t, ncomp, t))
        elif n.kind in (BIND, IVALUE):
            w('type %s interface{ VIDs() []int }\n' % nm.iname(k))
            if n.kind == IVALUE:
                t = nm.tname(k)
                w('type %s struct{ ID int }\n' % t)
                w('func (x %s) VIDs() []int { return []int{x.ID} }\n' % t)
    w('func idsIface(x interface{ VIDs() []int }) []int { if x == nil { return []int{0} }; return x.VIDs() }\n')
    # VID methods for bind targets
    for k, n in enumerate(nodes):
        if n.kind == BIND:
            tk = n.target
            tn = nodes[tk]
            if tn.kind == FIELD:
                recv = nm.comp_tname(tn.parent, tn.fieldno)
            elif tn.kind == WSTRUCT:
                if n.valrecv:
                    # S and *S both implement the interface; the binding names *S, so consumers must get a pointer
                    w('func (x %s) VIDs() []int { return ids%s(x) }\n' % (nm.tname(tk), nm.tname(tk)))
                    w('func isPtr%d(x %s) bool { _, ok := x.(*%s); return ok }\n' % (k, nm.iname(k), nm.tname(tk)))
                else:
                    w('func (x *%s) VIDs() []int { return ids%s(*x) }\n' % (nm.tname(tk), nm.tname(tk)))
                continue
            else:
                recv = '*' + nm.tname(tk) if tn.ptr else nm.tname(tk)
            w('func (x %s) VIDs() []int { return []int{x.ID} }\n' % recv)
    w('\n'.join(helpers) + '\n')
    # ---- provider functions
    for k, n in enumerate(nodes):
        if n.kind != FUNC:
            continue
        params, parts = [], []
        for j, (d, f) in enumerate(n.deps):
            pn = 'p%d' % j
            ty = go_type(spec, nm, d, f)
            if n.variadic and j == len(n.deps) - 1:
                # the source provides a slice type; declared as variadic
                params.append('%s ...%s' % (pn, ty[2:] if ty.startswith('[]') else ty))
            else:
                params.append('%s %s' % (pn, ty))
            parts.append(ids_expr(spec, nm, d, f, pn))
        t = nm.tname(k)
        rt = ('*' if n.ptr else '') + t
        rets = [rt]
        if n.has_cleanup:
            rets.append('func()')
        if n.has_err:
            rets.append('error')
        w('func %s(%s) (%s) {' % (nm.fname(k), ', '.join(params), ', '.join(rets)))
        for j, (d, f) in enumerate(n.deps):
            if nodes[d].kind == BIND and nodes[d].valrecv:
                w('\tvrt.A("C11,C12,C02", isPtr%d(p%d), "an interface bound to *S receives the pointer form of the struct provider, not the value form")' % (d, j))
        w('\tvar args []int')
        for p in parts:
            w('\targs = append(args, %s...)' % p)
        w('\tid, err := vrt.Call(%d, %s, args...)' % (k, 'true' if n.has_err else 'false'))
        zero = 'nil' if n.ptr else t + '{}'
        if n.ncomp == 1:
            val = '%s%s{ID: id}' % ('&' if n.ptr else '', t)
        else:
            val = '%s%s{%s}' % ('&' if n.ptr else '', t, ', '.join('%s: %s{ID: id + %d}' % (fld(n, j), nm.comp_tname(k, j), j) for j in range(n.ncomp)))
        if n.has_err:
            w('\tif err != nil {\n\t\treturn %s%s, err\n\t}' % (zero, ', vrt.FailedCleanupFn(%d)' % k if n.has_cleanup else ''))
        else:
            w('\t_ = err')
        r = [val]
        if n.has_cleanup:
            r.append('vrt.CleanupFn(%d)' % k)
        if n.has_err:
            r.append('nil')
        w('\treturn %s\n}\n' % ', '.join(r))
    files['providers.go'] = '\n'.join(out)

    # ---- wire file (injector template)
    def item_expr(k, qual=''):
        n = nodes[k]
        if n.kind == FUNC:
            return qual + nm.fname(k)
        if n.kind == WSTRUCT:
            if n.star:
                return 'wire.Struct(new(%s%s), "*")' % (qual, nm.tname(k))
            return 'wire.Struct(new(%s%s)%s)' % (qual, nm.tname(k), ''.join(', "%s"' % fld(n, j) for j in range(len(n.deps))))
        if n.kind == VALUE:
            t = qual + nm.tname(k)
            if n.ncomp == 1:
                lit = '%s{ID: %d}' % (t, 700 + 10 * k)
            else:
                lit = '%s{%s}' % (t, ', '.join('%s: %s%s{ID: %d}' % (fld(n, j), qual, nm.comp_tname(k, j), 700 + 10 * k + j) for j in range(n.ncomp)))
            return 'wire.Value(%s%s)' % ('&' if n.ptr else '', lit)
        if n.kind == IVALUE:
            return 'wire.InterfaceValue(new(%s%s), %s%s{ID: %d})' % (qual, nm.iname(k), qual, nm.tname(k), 700 + 10 * k)
        if n.kind == FIELD:
            p = nodes[n.parent]
            pt = ('*' if p.ptr else '') + qual + nm.tname(n.parent)
            return 'wire.FieldsOf(new(%s), "%s")' % (pt, fld(p, n.fieldno))
        if n.kind == BIND:
            tn = nodes[n.target]
            if tn.kind == FIELD:
                return 'wire.Bind(new(%s%s), new(%s%s))' % (qual, nm.iname(k), qual, nm.comp_tname(tn.parent, tn.fieldno))
            if tn.kind == WSTRUCT:
                return 'wire.Bind(new(%s%s), new(*%s%s))' % (qual, nm.iname(k), qual, nm.tname(n.target))
            return 'wire.Bind(new(%s%s), new(%s%s%s))' % (qual, nm.iname(k), '*' if tn.ptr else '', qual, nm.tname(n.target))
        raise ValueError(n.kind)

    # field nodes sharing a parent are separate FieldsOf calls (allowed)
    direct, set1, set2 = [], [], []
    for k, n in enumerate(nodes):
        if n.kind == ARG:
            continue
        if k not in need and spec.expect == 'accept':
            continue
        {'direct': direct, 'set1': set1, 'set2': set2, 'other': direct}[n.place].append(k)
    wf = ['//go:build wireinject\n// +build wireinject\n', 'package %s\n' % pkgname, 'import "github.com/google/wire"\n']
    if set2:
        wf.append('var Set2 = wire.NewSet(%s)\n' % ', '.join(item_expr(k) for k in set2))
    if set1 or set2:
        items = [item_expr(k) for k in set1] + (['Set2'] if set2 else [])
        wf.append('var Set1 = wire.NewSet(%s)\n' % ', '.join(items))
    build_items = [item_expr(k) for k in direct if k != getattr(spec, 'omit', None)] + (['Set1'] if (set1 or set2) else [])
    if getattr(spec, 'dup', None) is not None:
        build_items.append('wire.NewSet(%s)' % item_expr(spec.dup))
    if spec.order is not None:
        build_items = [build_items[i % len(build_items)] for i in spec.order] if build_items else build_items
    args = [(k, n) for k, n in enumerate(nodes) if n.kind == ARG]
    argdecl = ', '.join('%s %s%s' % (nm.argname(k, i), '*' if n.ptr else '', nm.tname(k)) for i, (k, n) in enumerate(args))
    rk, rform = spec.result
    rtype = go_type(spec, nm, rk, rform)
    rets = [rtype] + (['func()'] if spec.ret_cleanup else []) + (['error'] if spec.ret_err else [])
    sig_rets = '(%s)' % ', '.join(rets) if len(rets) > 1 else rets[0]
    wf.append('func Inject(%s) %s {\n\tpanic(wire.Build(%s))\n}\n' % (argdecl, sig_rets, ', '.join(build_items)))
    files['wire.go'] = '\n'.join(wf)

    # ---- driver
    d = ['//go:build !wireinject\n// +build !wireinject\n', 'package %s\n' % pkgname, 'import "example.com/corpus/vrt"\n']
    sig_args = ', '.join('%s%s' % ('*' if n.ptr else '', nm.tname(k)) for k, n in args)
    d.append('var _ func(%s) %s = Inject\n' % (sig_args, sig_rets))
    d.append('func VDrive() {')
    d.append('\tspec := &vrt.Spec{RetErr: %s, RetCleanup: %s}' % (str(spec.ret_err).lower(), str(spec.ret_cleanup).lower()))
    kindmap = {FUNC: 'vrt.KFunc', WSTRUCT: 'vrt.KStruct', VALUE: 'vrt.KValue', IVALUE: 'vrt.KValue', ARG: 'vrt.KArg', FIELD: 'vrt.KField', BIND: 'vrt.KField'}
    d.append('\tspec.Nodes = []vrt.Node{')
    for k, n in enumerate(nodes):
        params = []
        if n.kind == FUNC:
            for dd, f in n.deps:
                params += ident_refs(spec, dd, f)
        ident = [] if n.kind in (FUNC, ARG) else ident_refs(spec, k)
        d.append('\t\t{Name: %s, Kind: %s, HasErr: %s, HasCleanup: %s, Params: []vrt.Ref{%s}, Ident: []vrt.Ref{%s}},' % (
            '"%s"' % (nm.fname(k) if n.kind == FUNC else nm.tname(k)), kindmap[n.kind], str(n.has_err).lower(), str(n.has_cleanup).lower(),
            ', '.join(ref_go(r) for r in params), ', '.join(ref_go(r) for r in ident)))
    d.append('\t}')
    d.append('\tspec.Result = []vrt.Ref{%s}' % ', '.join(ref_go(r) for r in ident_refs(spec, rk, rform)))
    d.append('\tfor round := 0; round < 2; round++ {')
    d.append('\t\tvrt.Round = round\n\t\tvrt.Reset()')
    d.append('\t\tspec.ArgIDs = make([][]int, %d)' % len(nodes))
    call_args = []
    for i, (k, n) in enumerate(args):
        t = nm.tname(k)
        if n.ncomp == 1:
            lit = '%s{ID: vrt.ArgID("n%d_0")}' % (t, k)
        else:
            lit = '%s{%s}' % (t, ', '.join('%s: %s{ID: vrt.ArgID("n%d_%d")}' % (fld(n, j), nm.comp_tname(k, j), k, j) for j in range(n.ncomp)))
        d.append('\t\tin%d := %s%s' % (k, '&' if n.ptr else '', lit))
        d.append('\t\tspec.ArgIDs[%d] = ids%s%s(in%d)' % (k, 'P' if n.ptr else '', t, k))
        call_args.append('in%d' % k)
    lhs = ['res'] + (['cleanup'] if spec.ret_cleanup else []) + (['err'] if spec.ret_err else [])
    d.append('\t\t%s := Inject(%s)' % (', '.join(lhs), ', '.join(call_args)))
    d.append('\t\tout := vrt.Outcome{Result: %s}' % ids_expr(spec, nm, rk, rform, 'res'))
    if spec.ret_cleanup:
        d.append('\t\tout.Cleanup = cleanup\n\t\tout.CleanupNil = cleanup == nil')
    else:
        d.append('\t\tout.CleanupNil = true')
    if spec.ret_err:
        d.append('\t\tout.Err = err')
    d.append('\t\tvrt.Check(spec, out)')
    d.append('\t}\n}\n')
    files['zz_driver.go'] = '\n'.join(d)
    return files


# ------------------------------------------------------------------ families

FLAGS = [(False, False), (True, False), (False, True), (True, True)]   # (has_err, has_cleanup)


def dag_shapes(n):
    """All DAGs on nodes 0..n-1 with edges i->j (i<j) in which every node is reachable from 0."""
    pairs = [(i, j) for i in range(n) for j in range(i + 1, n)]
    for mask in range(1 << len(pairs)):
        edges = [p for b, p in enumerate(pairs) if mask >> b & 1]
        reach = {0}
        changed = True
        while changed:
            changed = False
            for i, j in edges:
                if i in reach and j not in reach:
                    reach.add(j)
                    changed = True
        if len(reach) == n:
            yield edges


def family_chains(max_n, with_arg=True, flag_sets=None):
    """F1: every DAG over <= max_n function providers x every flag assignment; one injector argument feeds the last provider."""
    for n in range(1, max_n + 1):
        for edges in dag_shapes(n):
            for flags in itertools.product(range(4), repeat=n):
                nodes = []
                for k in range(n):
                    deps = [(j, 'val') for (i, j) in edges if i == k]
                    he, hc = FLAGS[flags[k]]
                    nodes.append(Node(FUNC, deps=deps, has_err=he, has_cleanup=hc))
                if with_arg:
                    nodes.append(Node(ARG))
                    nodes[n - 1].deps = nodes[n - 1].deps + [(n, 'val')]
                yield Spec(nodes, (0, 'val'), label='chain n=%d edges=%s flags=%s' % (n, edges, flags), family='chains')
                # the injector may declare a cleanup / error result no provider gives rise to (C04: the aggregate
                # cleanup of an injector without cleanup-returning providers is still a non-nil function)
                if n <= 2:
                    ne = any(FLAGS[f][0] for f in flags)
                    nc = any(FLAGS[f][1] for f in flags)
                    for re_, rc_ in ((True, True), (ne, True), (True, nc)):
                        if (re_, rc_) == (ne, nc):
                            continue
                        import copy
                        yield Spec(copy.deepcopy(nodes), (0, 'val'), ret_err=re_, ret_cleanup=rc_, family='chains',
                                   label='chain n=%d edges=%s flags=%s over-declared results err=%s cleanup=%s' % (n, edges, flags, re_, rc_))


def family_kinds():
    """F2: struct providers (value/pointer consumers, "*", prevented and unselected fields), values, interface
    values, bindings to every kind of concrete source, field providers of value/pointer structs."""
    specs = []

    def S(nodes, result, label, **kw):
        specs.append(Spec(nodes, result, label=label, family='kinds', **kw))
    for sform in ('val', 'ptr'):
        for star in (False, True):
            for he, hc in FLAGS:
                # result <- func(S or *S) ; S{F0: T2 (func), F1: T3 (arg)} + extra + prevented
                S([Node(FUNC, deps=[(1, sform)], has_err=he, has_cleanup=hc),
                   Node(WSTRUCT, deps=[(2, 'val'), (3, 'val')], extra_fields=0 if star else 1, prevented=1, star=star),
                   Node(FUNC, has_err=hc, has_cleanup=he), Node(ARG)], (0, 'val'),
                  'struct provider consumed as %s star=%s' % (sform, star))
    # struct consumed in both forms by two consumers
    S([Node(FUNC, deps=[(1, 'val'), (2, 'val')]), Node(FUNC, deps=[(3, 'val')]), Node(FUNC, deps=[(3, 'ptr')]),
       Node(WSTRUCT, deps=[(4, 'val')], extra_fields=1), Node(FUNC, has_cleanup=True)], (0, 'val'), 'struct used as S and *S')
    # struct consumed as a value and, through an interface bound to *S whose method has a value receiver, as a pointer
    for order in (0, 1):
        deps = [(1, 'val'), (2, 'val')] if order == 0 else [(2, 'val'), (1, 'val')]
        S([Node(FUNC, deps=deps), Node(BIND, target=2, valrecv=True), Node(WSTRUCT, deps=[(3, 'val')], extra_fields=1), Node(FUNC, has_cleanup=True)], (0, 'val'),
          'struct consumed by value and through an interface bound to its pointer form (value-receiver method), order %d' % order)
    S([Node(FUNC, deps=[(1, 'val')]), Node(BIND, target=2, valrecv=True), Node(WSTRUCT, deps=[(3, 'val')], extra_fields=1), Node(FUNC)], (0, 'val'),
      'interface bound to the pointer form of a struct provider whose method has a value receiver')
    # a struct provider that skips a field lying between two selected fields, one of which has the skipped field's type
    files = {
        'providers.go': ('package {PKG}\n\nimport "example.com/corpus/vrt"\n\ntype DB struct{ ID int }\ntype Logger struct{ ID int }\n'
                         'type Server struct {\n\tPrimary *DB\n\tReplica *DB `wire:"-"`\n\tLog     Logger\n}\ntype Server2 struct {\n\tPrimary *DB\n\tReplica *DB\n\tLog     Logger\n}\n\n'
                         'func NewDB() *DB {\n\tid, _ := vrt.Call(1, false)\n\treturn &DB{ID: id}\n}\n\nfunc NewLogger() Logger {\n\tid, _ := vrt.Call(2, false)\n\treturn Logger{ID: id}\n}\n'),
        'wire.go': ('//go:build wireinject\n// +build wireinject\n\npackage {PKG}\n\nimport "github.com/google/wire"\n\nfunc InjectStar() Server {\n\tpanic(wire.Build(NewDB, NewLogger, wire.Struct(new(Server), "*")))\n}\n\n'
                    'func InjectNamed() *Server2 {\n\tpanic(wire.Build(NewDB, NewLogger, wire.Struct(new(Server2), "Primary", "Log")))\n}\n'),
        'zz_driver.go': ('//go:build !wireinject\n// +build !wireinject\n\npackage {PKG}\n\nimport "example.com/corpus/vrt"\n\nfunc VDrive() {\n\tvrt.Reset()\n\ta := InjectStar()\n'
                         '\tvrt.A("C10,C12", a.Primary != nil && a.Replica == nil && a.Log.ID != 0 && a.Primary.ID != a.Log.ID, "a struct provider sets the selected fields and leaves a prevented field of the same type alone")\n'
                         '\tvrt.Reset()\n\tb := InjectNamed()\n\tvrt.A("C10,C12", b.Primary != nil && b.Replica == nil && b.Log.ID != 0, "a struct provider sets exactly the named fields although an unnamed field has the type of a named one")\n\tvrt.Cover("skipped-field")\n}\n'),
    }
    specs.append(RawSpec(files, 'struct providers that skip a field whose type equals that of a selected field (prevent tag with "*", and an explicit subset)', family='kinds'))
    specs[-1].extra_props = ['C10', 'C12']
    # an interface bound to another interface that a provider returns: one construction, shared by both consumers
    files = {
        'providers.go': ('package {PKG}\n\nimport "example.com/corpus/vrt"\n\ntype Reader interface{ VID() int }\ntype Store interface {\n\tReader\n\tExtra()\n}\ntype impl struct{ ID int }\n\nfunc (x *impl) VID() int { return x.ID }\nfunc (x *impl) Extra()   {}\n\n'
                         'type App struct{ ID int }\n\nfunc NewStore() Store {\n\tid, _ := vrt.Call(1, false)\n\treturn &impl{ID: id}\n}\n\nfunc NewApp(r Reader, s Store) App {\n\tid, _ := vrt.Call(0, false, r.VID(), s.VID())\n\treturn App{ID: id}\n}\n'),
        'wire.go': ('//go:build wireinject\n// +build wireinject\n\npackage {PKG}\n\nimport "github.com/google/wire"\n\nfunc Inject() App {\n\tpanic(wire.Build(NewStore, wire.Bind(new(Reader), new(Store)), NewApp))\n}\n\n'
                    'func InjectReader() Reader {\n\tpanic(wire.Build(NewStore, wire.Bind(new(Reader), new(Store))))\n}\n'),
        'zz_driver.go': ('//go:build !wireinject\n// +build !wireinject\n\npackage {PKG}\n\nimport "example.com/corpus/vrt"\n\nfunc VDrive() {\n'
                         '\tspec := &vrt.Spec{Nodes: []vrt.Node{{Name: "NewApp", Kind: vrt.KFunc, Params: []vrt.Ref{{Node: 1}, {Node: 1}}}, {Name: "NewStore", Kind: vrt.KFunc}}, Result: []vrt.Ref{{Node: 0}}, ArgIDs: make([][]int, 2)}\n'
                         '\tvrt.Reset()\n\tres := Inject()\n\tvrt.Check(spec, vrt.Outcome{Result: []int{res.ID}, CleanupNil: true})\n'
                         '\tspec2 := &vrt.Spec{Nodes: []vrt.Node{{Name: "unused", Kind: vrt.KArg}, {Name: "NewStore", Kind: vrt.KFunc}}, Result: []vrt.Ref{{Node: 1}}, ArgIDs: make([][]int, 2)}\n'
                         '\tvrt.Reset()\n\tr := InjectReader()\n\tvrt.Check(spec2, vrt.Outcome{Result: []int{r.VID()}, CleanupNil: true})\n}\n'),
    }
    specs.append(RawSpec(files, 'interface bound to another interface that a provider returns (one construction shared by both consumers; the narrow interface alone)', family='kinds'))
    specs[-1].extra_props = ['C02', 'C11']
    # fields of a struct reached through a defined pointer type (type P *S): the parent is P, not *S
    files = {
        'providers.go': ('package {PKG}\n\nimport "example.com/corpus/vrt"\n\ntype Greeting struct{ ID int }\ntype Settings struct{ G Greeting }\ntype Primary *Settings\ntype App struct{ ID int }\n\n'
                         'func NewPrimary() Primary {\n\tid, _ := vrt.Call(1, false)\n\treturn &Settings{G: Greeting{ID: id}}\n}\n\nfunc NewOther() *Settings {\n\tid, _ := vrt.Call(2, false)\n\treturn &Settings{G: Greeting{ID: id}}\n}\n\n'
                         'func NewApp(g Greeting, pg *Greeting, o *Settings, p Primary) App {\n\talias := 0\n\tif pg == &(*Settings)(p).G {\n\t\talias = 1\n\t}\n\tid, _ := vrt.Call(0, false, g.ID, pg.ID, o.G.ID, alias)\n\treturn App{ID: id}\n}\n'),
        'wire.go': ('//go:build wireinject\n// +build wireinject\n\npackage {PKG}\n\nimport "github.com/google/wire"\n\nfunc Inject() App {\n\tpanic(wire.Build(NewPrimary, NewOther, wire.FieldsOf(new(Primary), "G"), NewApp))\n}\n'),
        'zz_driver.go': ('//go:build !wireinject\n// +build !wireinject\n\npackage {PKG}\n\nimport "example.com/corpus/vrt"\n\nfunc VDrive() {\n'
                         '\tspec := &vrt.Spec{Nodes: []vrt.Node{{Name: "NewApp", Kind: vrt.KFunc, Params: []vrt.Ref{{Node: 1}, {Node: 1}, {Node: 2}, {Node: -1, Const: 1}}}, {Name: "NewPrimary", Kind: vrt.KFunc}, {Name: "NewOther", Kind: vrt.KFunc}}, Result: []vrt.Ref{{Node: 0}}, ArgIDs: make([][]int, 3)}\n'
                         '\tvrt.Reset()\n\tres := Inject()\n\tvrt.Check(spec, vrt.Outcome{Result: []int{res.ID}, CleanupNil: true})\n}\n'),
    }
    specs.append(RawSpec(files, 'fields of a struct reached through a defined pointer type next to a provider of the plain pointer type (value and pointer-to-field)', family='kinds'))
    specs[-1].extra_props = ['C06', 'C12']
    # a field of empty-interface type read through a pointer-form source: the value form is the field, not its address
    files = {
        'providers.go': ('package {PKG}\n\nimport "example.com/corpus/vrt"\n\ntype Cfg struct{ Payload interface{} }\ntype H struct{ ID int }\ntype G struct{ ID int }\n\n'
                         'func NewCfg() *Cfg {\n\tid, _ := vrt.Call(1, false)\n\treturn &Cfg{Payload: id}\n}\n\n'
                         'func NewH(v interface{}) H {\n\tn, ok := v.(int)\n\tif !ok {\n\t\tn = -1\n\t}\n\tid, _ := vrt.Call(0, false, n)\n\treturn H{ID: id}\n}\n\n'
                         'func NewG(p *interface{}) G {\n\tn, ok := (*p).(int)\n\tif !ok {\n\t\tn = -1\n\t}\n\tid, _ := vrt.Call(0, false, n)\n\treturn G{ID: id}\n}\n'),
        'wire.go': ('//go:build wireinject\n// +build wireinject\n\npackage {PKG}\n\nimport "github.com/google/wire"\n\nfunc InjectH() H {\n\tpanic(wire.Build(NewCfg, wire.FieldsOf(new(*Cfg), "Payload"), NewH))\n}\n\n'
                    'func InjectG() G {\n\tpanic(wire.Build(NewCfg, wire.FieldsOf(new(*Cfg), "Payload"), NewG))\n}\n'),
        'zz_driver.go': ('//go:build !wireinject\n// +build !wireinject\n\npackage {PKG}\n\nimport "example.com/corpus/vrt"\n\nfunc VDrive() {\n'
                         '\tspec := &vrt.Spec{Nodes: []vrt.Node{{Name: "consumer", Kind: vrt.KFunc, Params: []vrt.Ref{{Node: 1}}}, {Name: "NewCfg", Kind: vrt.KFunc}}, Result: []vrt.Ref{{Node: 0}}, ArgIDs: make([][]int, 2)}\n'
                         '\tvrt.Reset()\n\th := InjectH()\n\tvrt.Check(spec, vrt.Outcome{Result: []int{h.ID}, CleanupNil: true})\n\tvrt.Reset()\n\tg := InjectG()\n\tvrt.Check(spec, vrt.Outcome{Result: []int{g.ID}, CleanupNil: true})\n}\n'),
    }
    specs.append(RawSpec(files, 'field of empty-interface type through a pointer-form source, consumed as a value and as a pointer to the field', family='kinds'))
    specs[-1].extra_props = ['C12', 'C02']
    # an injector whose result is an interface bound to a value type, over providers that can fail: nil on failure
    files = {
        'providers.go': ('package {PKG}\n\nimport "example.com/corpus/vrt"\n\ntype Store interface{ VID() int }\ntype MemStore struct{ ID int }\ntype Conf struct{ ID int }\n\nfunc (m MemStore) VID() int { return m.ID }\n\n'
                         'func NewConf() (Conf, func(), error) {\n\tid, err := vrt.Call(2, true)\n\tif err != nil {\n\t\treturn Conf{}, vrt.FailedCleanupFn(2), err\n\t}\n\treturn Conf{ID: id}, vrt.CleanupFn(2), nil\n}\n\n'
                         'func NewMem(c Conf) (MemStore, error) {\n\tid, err := vrt.Call(1, true, c.ID)\n\tif err != nil {\n\t\treturn MemStore{}, err\n\t}\n\treturn MemStore{ID: id}, nil\n}\n'),
        'wire.go': ('//go:build wireinject\n// +build wireinject\n\npackage {PKG}\n\nimport "github.com/google/wire"\n\nfunc Inject() (Store, func(), error) {\n\tpanic(wire.Build(NewConf, NewMem, wire.Bind(new(Store), new(MemStore))))\n}\n'),
        'zz_driver.go': ('//go:build !wireinject\n// +build !wireinject\n\npackage {PKG}\n\nimport "example.com/corpus/vrt"\n\nfunc VDrive() {\n'
                         '\tspec := &vrt.Spec{RetErr: true, RetCleanup: true, Nodes: []vrt.Node{{Name: "unused", Kind: vrt.KArg}, {Name: "NewMem", Kind: vrt.KFunc, HasErr: true, Params: []vrt.Ref{{Node: 2}}}, {Name: "NewConf", Kind: vrt.KFunc, HasErr: true, HasCleanup: true}}, Result: []vrt.Ref{{Node: 1}}}\n'
                         '\tfor round := 0; round < 2; round++ {\n\t\tvrt.Round = round\n\t\tvrt.Reset()\n\t\tspec.ArgIDs = make([][]int, 3)\n\t\tres, cleanup, err := Inject()\n'
                         '\t\tvrt.A("C03", err == nil || res == nil, "on failure an injector whose result is an interface returns nil, not a zero value of the bound type")\n'
                         '\t\trid := 0\n\t\tif res != nil {\n\t\t\trid = res.VID()\n\t\t}\n\t\tout := vrt.Outcome{Result: []int{rid}}\n\t\tout.Cleanup = cleanup\n\t\tout.CleanupNil = cleanup == nil\n\t\tout.Err = err\n\t\tvrt.Check(spec, out)\n\t}\n}\n'),
    }
    specs.append(RawSpec(files, 'interface result bound to a value type over providers that can fail (nil interface on failure)', family='kinds', compile_props=['C01', 'C03']))
    specs[-1].extra_props = ['C03']
    # an injector that calls nothing and returns one of its arguments through a binding, while other arguments
    # also implement the interface (the bound one must be returned, whatever its position)
    for bound in (0, 1, 2):
        tys = ['English', '*French', 'German']
        files = {
            'providers.go': ('package {PKG}\n\ntype Greeter interface{ VID() int }\ntype English struct{ ID int }\ntype French struct{ ID int }\ntype German struct{ ID int }\n'
                             'func (x English) VID() int { return x.ID }\nfunc (x *French) VID() int { return x.ID }\nfunc (x German) VID() int { return x.ID }\n'),
            'wire.go': ('//go:build wireinject\n// +build wireinject\n\npackage {PKG}\n\nimport "github.com/google/wire"\n\n'
                        'func Inject(en English, fr *French, de German) Greeter {\n\tpanic(wire.Build(wire.Bind(new(Greeter), new(%s))))\n}\n' % tys[bound]),
            'zz_driver.go': ('//go:build !wireinject\n// +build !wireinject\n\npackage {PKG}\n\nimport "example.com/corpus/vrt"\n\nfunc VDrive() {\n'
                             '\tbase := vrt.ArgID("base")\n\ta, b, c := base, base+1, base+2\n\tg := Inject(English{ID: a}, &French{ID: b}, German{ID: c})\n'
                             '\tvrt.A("C11,C02", g.VID() == []int{a, b, c}[%d], "an injector that returns a bound interface returns the argument the binding names, not another argument that implements it")\n\tvrt.Cover("bound-arg-returned")\n}\n' % bound),
        }
        specs.append(RawSpec(files, 'injector without calls returning the interface bound to its argument number %d of three that all implement it' % (bound + 1), family='kinds'))
    # struct provider is the result itself (both forms)
    for sform in ('val', 'ptr'):
        S([Node(WSTRUCT, deps=[(1, 'val'), (2, 'ptr')], extra_fields=1, prevented=1), Node(FUNC, has_err=True), Node(FUNC, ptr=True, has_cleanup=True)],
          (0, sform), 'struct is the result (%s)' % sform)
    # values
    for vptr in (False, True):
        for ncomp in (1, 2):
            S([Node(FUNC, deps=[(1, 'ptr' if vptr else 'val'), (2, 'val')], has_err=True), Node(VALUE, ptr=vptr, ncomp=ncomp), Node(ARG)], (0, 'val'),
              'value ptr=%s ncomp=%d' % (vptr, ncomp))
    S([Node(VALUE)], (0, 'val'), 'value is the result')
    # interface value
    S([Node(FUNC, deps=[(1, 'val')], has_cleanup=True), Node(IVALUE)], (0, 'val'), 'interface value consumed')
    S([Node(IVALUE)], (0, 'val'), 'interface value is the result')
    # bindings to func / arg / value, value and pointer receivers, two consumers of I and one of C
    for tkind in ('func', 'arg', 'value'):
        for tptr in (False, True):
            if tkind == 'func':
                tgt = Node(FUNC, ptr=tptr, has_err=True, has_cleanup=True)
            elif tkind == 'arg':
                tgt = Node(ARG, ptr=tptr)
            else:
                tgt = Node(VALUE, ptr=tptr)
            form = 'ptr' if tptr else 'val'
            S([Node(FUNC, deps=[(1, 'val'), (2, 'val'), (4, form)]), Node(FUNC, deps=[(3, 'val')], has_err=True), Node(FUNC, deps=[(3, 'val')], has_cleanup=True),
               Node(BIND, target=4), tgt], (0, 'val'), 'binding to %s ptr=%s, I consumed twice, C once' % (tkind, tptr))
            S([Node(BIND, target=1), tgt], (0, 'val'), 'binding is the result, to %s ptr=%s' % (tkind, tptr))
    # a binding to the pointer form of a struct provider; the struct is also consumed directly
    S([Node(FUNC, deps=[(1, 'val'), (2, 'ptr')], has_err=True), Node(BIND, target=2), Node(WSTRUCT, deps=[(3, 'val'), (4, 'val')], extra_fields=1), Node(FUNC, has_cleanup=True), Node(ARG)], (0, 'val'),
      'binding to *S of a struct provider, S also consumed as pointer')
    S([Node(BIND, target=1), Node(WSTRUCT, deps=[(2, 'val')], star=True, prevented=1), Node(VALUE)], (0, 'val'), 'binding to a struct provider is the result')
    # a binding whose concrete type is provided by FieldsOf in the same set
    S([Node(FUNC, deps=[(1, 'val')]), Node(BIND, target=2), Node(FIELD, parent=3, fieldno=1), Node(ARG, ncomp=2)], (0, 'val'), 'binding to a field-provided type (same set)')
    # fields of an argument / value / function result, value and pointer struct, value and pointer-to-field consumers
    for pkind in ('arg', 'value', 'func'):
        for pptr in (False, True):
            if pkind == 'arg':
                par = Node(ARG, ptr=pptr, ncomp=3)
            elif pkind == 'value':
                par = Node(VALUE, ptr=pptr, ncomp=3)
            else:
                par = Node(FUNC, ptr=pptr, ncomp=3, has_err=True)
            forms = ['val', 'ptr'] if pptr else ['val']
            for ff in forms:
                S([Node(FUNC, deps=[(1, ff), (2, 'val')], has_cleanup=True), Node(FIELD, parent=3, fieldno=0), Node(FIELD, parent=3, fieldno=2), par], (0, 'val'),
                  'fields of %s ptr=%s consumed as %s' % (pkind, pptr, ff))
            S([Node(FIELD, parent=1, fieldno=1), par], (0, 'val'), 'field of %s ptr=%s is the result' % (pkind, pptr))
    # field names that differ only in case (Fx / fx), both of the same type: the named one must be read / set
    for pkind in (FUNC, ARG, VALUE):
        for pptr in (False, True):
            for fno in (0, 1):
                par = Node(pkind, ptr=pptr, ncomp=2, fieldcase=True)
                S([Node(FUNC, deps=[(1, 'val')], has_err=True), Node(FIELD, parent=2, fieldno=fno), par], (0, 'val'),
                  'field %s of a %s ptr=%s whose fields Fx and fx differ only in case and share their type' % (CASE_NAMES[fno], pkind, pptr))
    for sform in ('val', 'ptr'):
        S([Node(FUNC, deps=[(1, sform)]), Node(WSTRUCT, deps=[(2, 'val'), (3, 'val')], fieldcase=True, extra_fields=1), Node(FUNC), Node(ARG)], (0, 'val'),
          'struct provider (%s) whose selected fields Fx and fx differ only in case' % sform)
        specs[-1].compile_props = ['C01', 'C02', 'C12']
    return specs


def family_grouping(seed=0):
    """F4: one well-formed program rendered under every placement of its items into direct / Set1 / Set2 (nested)
    and several argument orders; all must be accepted and wire identically."""
    specs = []
    rnd = random.Random(seed)
    for trial in range(12):
        places = [rnd.choice(['direct', 'set1', 'set2']) for _ in range(5)]
        nodes = [Node(FUNC, deps=[(1, 'val'), (2, 'val')], has_err=True, place=places[0]),
                 Node(FUNC, deps=[(3, 'val')], has_cleanup=True, place=places[1]),
                 Node(FUNC, deps=[(3, 'val'), (4, 'val')], has_err=True, has_cleanup=True, place=places[2]),
                 Node(BIND, target=5, place=places[3]), Node(VALUE, place=places[4]), Node(FUNC, ptr=True, has_cleanup=True, place=places[3])]
        sp = Spec(nodes, (0, 'val'), label='grouping %s' % places, family='grouping')
        nb = len({'direct'} & set(places)) and places.count('direct') + (1 if any(p != 'direct' for p in places) else 0)
        order = list(range(8))
        rnd.shuffle(order)
        specs.append(sp)
    return specs


def family_naming():
    """F3: adversarial renderings (names colliding with err, cleanup, keywords, predeclared identifiers, numeric
    suffixes, blank/odd parameter names) of representative programs."""
    specs = []
    for he, hc in FLAGS:
        for he2, hc2 in FLAGS:
            nodes = [Node(FUNC, deps=[(1, 'val'), (2, 'val'), (5, 'val')], has_err=he, has_cleanup=hc),
                     Node(FUNC, deps=[(3, 'val')], has_err=True, has_cleanup=True),
                     Node(FUNC, deps=[(3, 'val'), (4, 'val')], has_err=he2, has_cleanup=hc2),
                     Node(FUNC, has_err=True, has_cleanup=True), Node(ARG), Node(ARG)]
            specs.append(Spec(nodes, (0, 'val'), naming='adversarial', label='adversarial names flags=%s' % ((he, hc, he2, hc2),), family='naming'))
    nodes = [Node(FUNC, deps=[(1, 'val'), (2, 'ptr')], has_err=True), Node(VALUE), Node(WSTRUCT, deps=[(3, 'val')], extra_fields=1), Node(FUNC, has_err=True, has_cleanup=True)]
    specs.append(Spec(nodes, (0, 'val'), naming='adversarial', label='adversarial names with value and struct', family='naming'))
    # the type whose derived local name is cleanup / err / cleanup2 / err2 is produced by the very call whose cleanup
    # and error variables are being named, as the first, second or third cleanup-returning call of the injector
    pool = ['Cleanup', 'Err', 'Cleanup2', 'Err2', 'Cleanup3']
    for order in itertools.permutations(pool, 3):
        if order[0] > order[1] and order[2] != 'Cleanup':
            continue    # keep about half of the orders, all of those that call Cleanup first
        nodes = [Node(FUNC, deps=[(1, 'val')], has_err=True, has_cleanup=True, name=order[2]),
                 Node(FUNC, deps=[(2, 'val')], has_err=True, has_cleanup=True, name=order[1]),
                 Node(FUNC, has_err=True, has_cleanup=True, name=order[0])]
        specs.append(Spec(nodes, (0, 'val'), naming='adversarial', label='types named %s, %s, %s returned together with a cleanup and an error, called in this order' % order, family='naming'))
    # exactly one cleanup-returning provider (its variable is renamed because of the package-level cleanup),
    # before / after a provider that can fail, plain-named types
    for pos in (0, 1, 2):
        flags = [(True, False), (True, False), (True, False)]
        flags[pos] = (pos == 2, True) if pos == 2 else (False, True)
        nodes = [Node(FUNC, deps=[(1, 'val')], has_err=flags[0][0], has_cleanup=flags[0][1], name='App'),
                 Node(FUNC, deps=[(2, 'val')], has_err=flags[1][0], has_cleanup=flags[1][1], name='Conn'),
                 Node(FUNC, has_err=flags[2][0], has_cleanup=flags[2][1], name='Conf')]
        specs.append(Spec(nodes, (0, 'val'), naming='adversarial', label='exactly one cleanup-returning provider (position %d of 3) next to package-level err and cleanup' % pos, family='naming'))
    for params, call in (('Err', 'Err{ID: a}'), ('_ Err', 'Err{ID: a}')):
        files = {
            'providers.go': ('package {PKG}\n\nimport "example.com/corpus/vrt"\n\ntype Err struct{ ID int }\ntype Logger struct{ ID int }\ntype App struct{ ID int }\n\n'
                             'func NewLogger() (Logger, error) {\n\tid, err := vrt.Call(1, true)\n\tif err != nil {\n\t\treturn Logger{}, err\n\t}\n\treturn Logger{ID: id}, nil\n}\n\n'
                             'func NewApp(l Logger, e Err) App {\n\tid, _ := vrt.Call(0, false, l.ID, e.ID)\n\treturn App{ID: id}\n}\n'),
            'wire.go': '//go:build wireinject\n// +build wireinject\n\npackage {PKG}\n\nimport "github.com/google/wire"\n\nfunc Inject(%s) (App, error) {\n\tpanic(wire.Build(NewLogger, NewApp))\n}\n' % params,
            'zz_driver.go': ('//go:build !wireinject\n// +build !wireinject\n\npackage {PKG}\n\nimport "example.com/corpus/vrt"\n\nfunc VDrive() {\n'
                             '\tspec := &vrt.Spec{RetErr: true, Nodes: []vrt.Node{{Name: "NewApp", Kind: vrt.KFunc, Params: []vrt.Ref{{Node: 1}, {Node: 2}}}, {Name: "NewLogger", Kind: vrt.KFunc, HasErr: true}, {Name: "e", Kind: vrt.KArg}}, Result: []vrt.Ref{{Node: 0}}}\n'
                             '\tfor round := 0; round < 2; round++ {\n\t\tvrt.Round = round\n\t\tvrt.Reset()\n\t\ta := vrt.ArgID("e")\n\t\tspec.ArgIDs = [][]int{nil, nil, {a}}\n\t\tres, err := Inject(%s)\n'
                             '\t\tvrt.Check(spec, vrt.Outcome{Result: []int{res.ID}, CleanupNil: true, Err: err})\n\t}\n}\n' % call),
        }
        specs.append(RawSpec(files, 'injector parameter "%s" of a type named Err next to an error-returning provider (the invented parameter name must avoid the error variable)' % params, family='naming', naming='adversarial'))
    files = {
        'providers.go': ('package {PKG}\n\nimport (\n\t"example.com/corpus/vrt"\n\ta "example.com/corpus/{PKG}/a"\n\tb "example.com/corpus/{PKG}/b"\n)\n\ntype App struct{ ID int }\n\n'
                         'func NewApp(x a.Config, y b.Config, z *a.Config) App {\n\tid, _ := vrt.Call(0, false, x.ID, y.ID, z.ID)\n\treturn App{ID: id}\n}\n'),
        'wire.go': ('//go:build wireinject\n// +build wireinject\n\npackage {PKG}\n\nimport (\n\t"github.com/google/wire"\n\ta "example.com/corpus/{PKG}/a"\n\tb "example.com/corpus/{PKG}/b"\n)\n\n'
                    'func Inject(a.Config, b.Config, *a.Config) App {\n\tpanic(wire.Build(NewApp))\n}\n\nfunc InjectBlank(_ a.Config, _ b.Config, _ *a.Config) App {\n\tpanic(wire.Build(NewApp))\n}\n'),
        'zz_driver.go': ('//go:build !wireinject\n// +build !wireinject\n\npackage {PKG}\n\nimport (\n\t"example.com/corpus/vrt"\n\ta "example.com/corpus/{PKG}/a"\n\tb "example.com/corpus/{PKG}/b"\n)\n\nfunc VDrive() {\n'
                         '\tspec := &vrt.Spec{Nodes: []vrt.Node{{Name: "NewApp", Kind: vrt.KFunc, Params: []vrt.Ref{{Node: 1}, {Node: 2}, {Node: 3}}}, {Name: "x", Kind: vrt.KArg}, {Name: "y", Kind: vrt.KArg}, {Name: "z", Kind: vrt.KArg}}, Result: []vrt.Ref{{Node: 0}}}\n'
                         '\tx, y, z := vrt.ArgID("x"), vrt.ArgID("y"), vrt.ArgID("z")\n\tspec.ArgIDs = [][]int{nil, {x}, {y}, {z}}\n'
                         '\tvrt.Reset()\n\tr1 := Inject(a.Config{ID: x}, b.Config{ID: y}, &a.Config{ID: z})\n\tvrt.Check(spec, vrt.Outcome{Result: []int{r1.ID}, CleanupNil: true})\n'
                         '\tvrt.Reset()\n\tr2 := InjectBlank(a.Config{ID: x}, b.Config{ID: y}, &a.Config{ID: z})\n\tvrt.Check(spec, vrt.Outcome{Result: []int{r2.ID}, CleanupNil: true})\n}\n'),
    }
    specs.append(RawSpec(files, 'unnamed and blank injector parameters of equally named types from two packages (the invented names must differ from each other)', family='naming', naming='adversarial',
                         extra_pkgs={'a': {'a.go': 'package a\n\ntype Config struct{ ID int }\n'}, 'b': {'b.go': 'package b\n\ntype Config struct{ ID int }\n'}}))
    for nm_ in ('Cleanup', 'Err'):
        for he, hc in FLAGS[1:]:
            nodes = [Node(FUNC, has_err=he, has_cleanup=hc, name=nm_)]
            specs.append(Spec(nodes, (0, 'val'), naming='adversarial', label='single provider of a type named %s err=%s cleanup=%s' % (nm_, he, hc), family='naming'))
            nodes = [Node(FUNC, has_err=he, has_cleanup=hc, name=nm_, ptr=True)]
            specs.append(Spec(nodes, (0, 'ptr'), naming='adversarial', label='single provider of a pointer to a type named %s err=%s cleanup=%s' % (nm_, he, hc), family='naming'))
    return specs


def family_deep(seed=0, nmax=5, extra=24):
    """F1b: deeper call sequences (4..nmax providers): linear chains, fan-in stars and seeded random DAGs, with
    cleanup+error on every provider and seeded other flag mixes (more than two cleanups live at a failure point)."""
    specs = []
    rnd = random.Random(seed)

    def mk(n, edges, flags, label):
        nodes = []
        for k in range(n):
            deps = [(j, 'val') for (i, j) in edges if i == k]
            he, hc = FLAGS[flags[k]]
            nodes.append(Node(FUNC, deps=deps, has_err=he, has_cleanup=hc))
        nodes.append(Node(ARG))
        nodes[n - 1].deps = nodes[n - 1].deps + [(n, 'val')]
        specs.append(Spec(nodes, (0, 'val'), label='%s n=%d edges=%s flags=%s' % (label, n, edges, list(flags)), family='deep'))
    for n in range(4, nmax + 1):
        chain = [(i, i + 1) for i in range(n - 1)]
        star = [(0, j) for j in range(1, n)]
        for edges, lab in ((chain, 'chain'), (star, 'star')):
            mk(n, edges, [3] * n, lab)
            mk(n, edges, [2] * (n - 1) + [1], lab)      # cleanups everywhere, the first-called provider can fail
            mk(n, edges, [1] + [2] * (n - 1), lab)      # the last-called provider fails with n-1 cleanups live
            mk(n, edges, [3, 0, 3, 0, 3][:n], lab)
    # more than nine cleanups in one injector (names cleanup, cleanup2, ..., cleanup10, ...: numeric, not lexicographic, order)
    mk(11, [(i, i + 1) for i in range(10)], [2] * 11, 'long chain')
    mk(12, [(i, i + 1) for i in range(11)], [3] * 9 + [2, 2, 3], 'long chain')
    mk(11, [(0, j) for j in range(1, 11)], [2] * 10 + [3], 'wide star')
    for _ in range(extra):
        n = rnd.choice([4, 5][: max(1, nmax - 3)])
        pairs = [(i, j) for i in range(n) for j in range(i + 1, n)]
        while True:
            edges = [p for p in pairs if rnd.random() < 0.45]
            reach = {0}
            ch = True
            while ch:
                ch = False
                for i, j in edges:
                    if i in reach and j not in reach:
                        reach.add(j)
                        ch = True
            if len(reach) == n:
                break
        mk(n, edges, [rnd.randrange(4) for _ in range(n)], 'random')
    return specs


# ------------------------------------------------------------------ raw (hand-templated) programs

class RawSpec:
    def __init__(self, files, label, expect='accept', reject_props=None, family='raw', naming='plain', extra_pkgs=None, compile_props=None, ext_modules=None, shared_pkgs=None):
        self.ext_modules = ext_modules or {}   # module path -> {relative file: source}: dependencies outside the corpus module
        self.shared_pkgs = shared_pkgs or {}   # corpus-relative dir -> {file: source}: packages shared by several programs
        self.compile_props = compile_props or ['C01']
        self.files = files              # filename -> source ({PKG} is replaced by the package name)
        self.label = label
        self.expect = expect
        self.reject_props = reject_props or []
        self.family = family
        self.naming = naming
        self.extra_pkgs = extra_pkgs or {}   # subdir -> {filename: source}


VALUE_EXPRS = [
    # (type, expression using the symbolic package variable Base (int) and helpers, comparable with ==)
    ('int', 'Base'),
    ('int', 'Base + 1'),
    ('int', '-Base'),
    ('int', '(Base * 3) ^ 5'),
    ('uint8', 'uint8(Base)'),
    ('MyInt', 'MyInt(Base)'),
    ('bool', 'Base > 3 && Base != 7'),
    ('string', '"lit"'),
    ('float64', '1.5'),
    ('S', 'S{ID: Base, Name: "x"}'),
    ('*S', '&S{ID: Base}'),
    ('*S', 'PtrS'),
    ('S', '*PtrS'),
    ('int', 'S{ID: Base}.ID'),
    ('int', 'Arr[1]'),
    ('int', '[]int{Base, 2, 3}[0]'),
    ('int', 'map[string]int{"a": Base}["a"]'),
    ('[2]int', '[2]int{Base, 4}'),
    ('int', 'len(Sl)'),            # builtin call: must be rejected (it is a call)
    ('int', 'Iface.(int)'),
    ('int', '((Base))'),
    ('int', 'PtrS.ID'),
    ('int', 'Nested.In.ID'),
    ('MyStr', 'MyStr("a" + "b")'),
    ('*int', '&Arr[0]'),
    ('[]int', 'Sl3[1:3:3]'),        # full slice expression: length and capacity matter
    ('[]int', 'Sl3[:2]'),
    ('[]int', 'Arr[1:][:1:2]'),
    ('int', '[][]int{{Base, 2}, {3}}[0][0]'),        # nested literals with elided inner types
    ('int', 'map[string]S{"a": {ID: Base}}["a"].ID'),
]


def family_values():
    """F5 (C13): wire.Value / wire.InterfaceValue over a list of expression forms whose operands are symbolic package
    variables; the set is declared in the injector's package or in another package. The driver asserts, for all
    values of the operands, that two calls return the same value and that it equals the home package's evaluation."""
    specs = []
    decls = (
        'type MyInt int\ntype MyStr string\ntype S struct { ID int; Name string }\ntype In struct{ ID int }\ntype Out struct{ In In }\n'
        'var Base = vrt.ArgID("base")\nvar PtrS = &S{ID: Base + 100}\nvar Arr = [3]int{Base, Base + 1, 9}\nvar Sl = []int{1, 2}\nvar Sl3 = []int{Base, Base + 1, Base + 2, Base + 3, Base + 4}\n'
        'var Iface interface{} = Base\nvar Nested = Out{In: In{ID: Base + 5}}\n')
    accept = [e for e in VALUE_EXPRS if e[1] != 'len(Sl)']
    for home in ('same', 'other'):
        q = '' if home == 'same' else 'q.'
        prov = ['package {PKG}\n', 'import "example.com/corpus/vrt"\n' if home == 'same' else 'import (\n\t"example.com/corpus/vrt"\n\t"example.com/corpus/{PKG}/q"\n)\nvar _ = q.Base\n', 'var _ = vrt.Zero{}\n']
        if home == 'same':
            prov.append(decls)
        wf = ['//go:build wireinject\n// +build wireinject\n', 'package {PKG}\n', 'import (\n\t"github.com/google/wire"\n%s)\n' % ('' if home == 'same' else '\t"example.com/corpus/{PKG}/q"\n')]
        drv = ['//go:build !wireinject\n// +build !wireinject\n', 'package {PKG}\n', 'import (\n\t"example.com/corpus/vrt"\n%s)\n' % ('' if home == 'same' else '\t"example.com/corpus/{PKG}/q"\n'), 'func VDrive() {']
        qdecl = ['package q\n', 'import (\n\t"example.com/corpus/vrt"\n\t"github.com/google/wire"\n)\n', decls]
        for i, (ty, ex) in enumerate(accept):
            wt = 'W%d' % i   # distinct named type per injector so that types never clash
            def qual(t):
                return re.sub(r'\b(MyInt|MyStr|S)\b', q + r'\1', t)
            def qexpr(e):
                return re.sub(r'\b(MyInt|MyStr|S|Base|PtrS|Arr|Sl3|Sl|Iface|Nested)\b', q + r'\1', e)
            if home == 'same':
                wf.append('func Inject%d() %s {\n\tpanic(wire.Build(wire.Value(%s)))\n}\n' % (i, ty, ex))
                prov.append('var Expected%d %s = %s\n' % (i, ty, ex))
                exp = 'Expected%d' % i
            else:
                qdecl.append('var Set%d = wire.NewSet(wire.Value(%s))\nvar Expected%d %s = %s\n' % (i, ex, i, ty, ex))
                wf.append('func Inject%d() %s {\n\tpanic(wire.Build(q.Set%d))\n}\n' % (i, qual(ty), i))
                exp = 'q.Expected%d' % i
            if ty.startswith('[]'):
                drv.append('\t{ a, b := Inject%d(), Inject%d(); vrt.A("C13", len(a) == len(b) && cap(a) == cap(b) && &a[0] == &b[0], "a slice-valued wire.Value yields the same slice on every call: %s"); vrt.A("C13", len(a) == len(%s) && cap(a) == cap(%s) && a[0] == %s[0], "wire.Value provides the value of the written expression (length, capacity, elements): %s") }' % (i, i, ex.replace('"', "'"), exp, exp, exp, ex.replace('"', "'")))
            elif ty.startswith('*'):
                drv.append('\t{ a, b := Inject%d(), Inject%d(); vrt.A("C13", a == b, "a pointer-valued wire.Value yields the same pointer on every call: %s"); vrt.A("C13", *a == *%s, "wire.Value provides the value of the written expression: %s") }' % (i, i, ex.replace('"', "'"), exp, ex.replace('"', "'")))
            else:
                drv.append('\t{ a, b := Inject%d(), Inject%d(); vrt.A("C13", a == b, "wire.Value yields the same value on every call: %s"); vrt.A("C13", a == %s, "wire.Value provides the value of the written expression: %s") }' % (i, i, ex.replace('"', "'"), exp, ex.replace('"', "'")))
        drv.append('\tvrt.Cover("values-checked")\n}\n')
        files = {'providers.go': '\n'.join(prov), 'wire.go': '\n'.join(wf), 'zz_driver.go': '\n'.join(drv)}
        extra = {} if home == 'same' else {'q': {'q.go': '\n'.join(qdecl)}}
        specs.append(RawSpec(files, 'wire.Value over %d expression forms, set declared in %s package' % (len(accept), 'the injector\'s' if home == 'same' else 'another'), family='values', extra_pkgs=extra))
    # several values in one injector whose types derive the same variable name
    files = {
        'providers.go': ('package {PKG}\n\nimport (\n\t"example.com/corpus/vrt"\n\t"example.com/corpus/{PKG}/q"\n)\n\ntype Limits struct{ N int }\ntype App struct{ ID int }\n\nvar Base = vrt.ArgID("base")\n\n'
                         'func NewApp(a Limits, b *Limits, c q.Limits, d []string, e map[string]int, f [2]int) App {\n\tid, _ := vrt.Call(0, false, a.N, b.N, c.N, len(d), e["k"], f[1])\n\treturn App{ID: id}\n}\n'),
        'wire.go': ('//go:build wireinject\n// +build wireinject\n\npackage {PKG}\n\nimport (\n\t"github.com/google/wire"\n\t"example.com/corpus/{PKG}/q"\n)\n\n'
                    'func Inject() App {\n\tpanic(wire.Build(NewApp, wire.Value(Limits{N: Base}), wire.Value(&Limits{N: Base + 1}), wire.Value(q.Limits{N: 7}), wire.Value([]string{"a", "b"}), wire.Value(map[string]int{"k": 5}), wire.Value([2]int{1, Base + 2})))\n}\n'),
        'zz_driver.go': ('//go:build !wireinject\n// +build !wireinject\n\npackage {PKG}\n\nimport "example.com/corpus/vrt"\n\nfunc VDrive() {\n'
                         '\tspec := &vrt.Spec{Nodes: []vrt.Node{{Name: "NewApp", Kind: vrt.KFunc, Params: []vrt.Ref{{Node: 1, Comp: 0}, {Node: 1, Comp: 1}, {Node: -1, Const: 7}, {Node: -1, Const: 2}, {Node: -1, Const: 5}, {Node: 1, Comp: 2}}}, {Name: "base", Kind: vrt.KArg}}, Result: []vrt.Ref{{Node: 0}}}\n'
                         '\tspec.ArgIDs = [][]int{nil, {Base, Base + 1, Base + 2}}\n\tvrt.Reset()\n\tres := Inject()\n\tvrt.Check(spec, vrt.Outcome{Result: []int{res.ID}, CleanupNil: true})\n\tvrt.Cover("values-checked")\n}\n'),
    }
    specs.append(RawSpec(files, 'six values in one injector whose types derive colliding variable names (T and *T, same name in another package, unnamed slice / map / array)', family='values',
                         extra_pkgs={'q': {'q.go': 'package q\n\ntype Limits struct{ N int }\n'}}, compile_props=['C01', 'C13', 'C14']))
    # interface values
    files = {
        'providers.go': 'package {PKG}\n\nimport "example.com/corpus/vrt"\n\ntype I interface{ VID() int }\ntype C struct{ ID int }\nfunc (c C) VID() int { return c.ID }\nvar Base = vrt.ArgID("base")\n',
        'wire.go': '//go:build wireinject\n// +build wireinject\n\npackage {PKG}\n\nimport "github.com/google/wire"\n\nfunc Inject() I {\n\tpanic(wire.Build(wire.InterfaceValue(new(I), C{ID: Base})))\n}\n',
        'zz_driver.go': '//go:build !wireinject\n// +build !wireinject\n\npackage {PKG}\n\nimport "example.com/corpus/vrt"\n\nfunc VDrive() {\n\ta, b := Inject(), Inject()\n\tvrt.A("C13", a == b && a.VID() == Base, "wire.InterfaceValue provides the written value, the same on every call")\n\tvrt.Cover("values-checked")\n}\n',
    }
    specs.append(RawSpec(files, 'wire.InterfaceValue', family='values'))
    # InterfaceValue may be given a call (the baseline's own InterfaceValue test does): it must be evaluated once,
    # during package initialisation, and every injector call must observe that one value / pointer
    files = {
        'providers.go': ('package {PKG}\n\nimport "example.com/corpus/vrt"\n\ntype I interface{ VID() int }\ntype C struct{ ID int }\nfunc (c *C) VID() int { return c.ID }\n'
                         'var Base = vrt.ArgID("base")\nvar Made int\nfunc mk() *C { Made++; return &C{ID: Base + Made} }\ntype App struct{ A, B int }\nfunc NewApp(x I, y I) App { return App{x.VID(), y.VID()} }\n'),
        'wire.go': ('//go:build wireinject\n// +build wireinject\n\npackage {PKG}\n\nimport "github.com/google/wire"\n\nfunc Inject() I {\n\tpanic(wire.Build(wire.InterfaceValue(new(I), mk())))\n}\n\n'
                    'func Inject2() I {\n\tpanic(wire.Build(wire.InterfaceValue(new(I), mk())))\n}\n'),
        'zz_driver.go': ('//go:build !wireinject\n// +build !wireinject\n\npackage {PKG}\n\nimport "example.com/corpus/vrt"\n\nfunc VDrive() {\n\tm0 := Made\n\ta, b := Inject(), Inject()\n\tc := Inject2()\n'
                         '\tvrt.A("C13", a == b, "an interface value written as a call yields the same pointer on every injector call")\n'
                         '\tvrt.A("C13", Made == m0 && Made == 2, "the expression of an interface value is evaluated once per written occurrence, during package initialisation, not per injector call")\n'
                         '\tvrt.A("C13", a.VID() != c.VID() && (a.VID() == Base+1 || a.VID() == Base+2), "each written occurrence has its own value")\n\tvrt.Cover("values-checked")\n}\n'),
    }
    specs.append(RawSpec(files, 'wire.InterfaceValue given a call: evaluated once at initialisation', family='values'))
    # InterfaceValue has no syntactic whitelist: a function literal is a legal value; identifiers in it that denote
    # no object (the blank identifier on the left of an assignment) must not trip the accessibility check (D16)
    files = {
        'providers.go': 'package {PKG}\n\ntype Runner interface{ Run() int }\ntype RunFunc func() int\n\nfunc (f RunFunc) Run() int { return f() }\n\nvar Sink = 41\n',
        'wire.go': ('//go:build wireinject\n// +build wireinject\n\npackage {PKG}\n\nimport "github.com/google/wire"\n\n'
                    'func Inject() Runner {\n\tpanic(wire.Build(wire.InterfaceValue(new(Runner), RunFunc(func() int { _ = Sink; return Sink + 1 }))))\n}\n'),
        'zz_driver.go': ('//go:build !wireinject\n// +build !wireinject\n\npackage {PKG}\n\nimport "example.com/corpus/vrt"\n\nfunc VDrive() {\n'
                         '\tvrt.A("C13", Inject().Run() == 42, "an interface value written as a function literal")\n\tvrt.Cover("values-checked")\n}\n'),
    }
    specs.append(RawSpec(files, 'wire.InterfaceValue given a function literal that assigns to the blank identifier', family='values'))
    specs[-1].extra_props = ['C20']
    # rejected forms: each in its own package
    rej = [
        ('function call', 'type T struct{ ID int }\nfunc mk() T { return T{} }', 'wire.Value(mk())', 'T'),
        ('builtin call', 'var Sl = []int{1}', 'wire.Value(len(Sl))', 'int'),
        ('method call', 'type T struct{ ID int }\nfunc (t T) M() int { return 1 }\nvar X T', 'wire.Value(X.M())', 'int'),
        ('call through a function-typed variable', 'var F = func() int { return 1 }', 'wire.Value(F())', 'int'),
        ('call through a named function type', 'type FT func() int\nvar F FT = func() int { return 1 }', 'wire.Value(F())', 'int'),
        ('channel receive', 'var Ch = make(chan int, 1)', 'wire.Value(<-Ch)', 'int'),
        ('nested call inside a composite literal', 'type T struct{ ID int }\nfunc one() int { return 1 }', 'wire.Value(T{ID: one()})', 'T'),
        ('interface-typed wire.Value', 'type I interface{}\nvar X I = 1', 'wire.Value(X)', 'I'),
        ('InterfaceValue not implementing', 'type I interface{ M() }\ntype C struct{}', 'wire.InterfaceValue(new(I), C{})', 'I'),
        ('function literal', 'type FT func() int', 'wire.Value(FT(func() int { return 1 }))', 'FT'),
    ]
    # the same unsafe operations nested inside every container form of the whitelist
    nest_decl = ('type S struct{ ID int }\ntype MyInt int\nfunc one() int { return 1 }\nfunc ptr() *int { v := 1; return &v }\n'
                 'var Arr = [3]int{1, 2, 3}\nvar Sl = []int{1, 2, 3}\nvar Ch = make(chan int, 1)\nvar Iface interface{} = 1\n')
    nested = ['(one())', '-one()', 'one() + 1', '1 + (2 * one())', 'Arr[one()]', 'Sl[one():][0]', 'Sl[:one()][0]', 'S{ID: one()}.ID', '[]int{one()}[0]',
              'map[string]int{"a": one()}["a"]', 'map[int]int{one(): 1}[1]', '[2]int{0: one()}[0]', 'int(one())', 'int(MyInt(one()))', '*ptr()',
              'Iface.(int) + one()', '(<-Ch) + 1', '[]int{<-Ch}[0]', '-(<-Ch)', '*(&[]int{one()}[0])', 'struct{ A int }{A: one()}.A', '[...]int{one()}[0]']
    for ex in nested:
        rej.append(('nested unsafe operation: ' + ex, nest_decl, 'wire.Value(%s)' % ex, 'int'))
    # an unsafe operation next to a (harmless) conversion, in both orders
    for u in ['one()', '<-Ch', 'func() int { return 1 }()', '*ptr()']:
        rej.append(('unsafe operation followed by a conversion: ' + u, nest_decl, 'wire.Value([2]int{%s, int(MyInt(2))})' % u, '[2]int'))
        rej.append(('unsafe operation preceded by a conversion: ' + u, nest_decl, 'wire.Value([2]int{int(MyInt(2)), %s})' % u, '[2]int'))
        rej.append(('unsafe operation between conversions: ' + u, nest_decl, 'wire.Value(S{ID: int(MyInt(%s)) + int(MyInt(3))})' % u, 'S'))
    for lab, decl, item, rty in rej:
        files = {
            'providers.go': 'package {PKG}\n\n%s\n' % decl,
            'wire.go': '//go:build wireinject\n// +build wireinject\n\npackage {PKG}\n\nimport "github.com/google/wire"\n\nfunc Inject() %s {\n\tpanic(wire.Build(%s))\n}\n' % (rty, item),
        }
        specs.append(RawSpec(files, 'rejected value form: ' + lab, expect='reject', reject_props=['C13'], family='values'))
    # unexported identifier of another package
    files = {
        'providers.go': 'package {PKG}\n',
        'wire.go': '//go:build wireinject\n// +build wireinject\n\npackage {PKG}\n\nimport (\n\t"github.com/google/wire"\n\t"example.com/corpus/{PKG}/q"\n)\n\nfunc Inject() int {\n\tpanic(wire.Build(q.Set))\n}\n',
    }
    specs.append(RawSpec(files, 'rejected value form: unexported identifier of another package', expect='reject', reject_props=['C13'], family='values',
                         extra_pkgs={'q': {'q.go': 'package q\n\nimport "github.com/google/wire"\n\nvar hidden = 3\nvar Set = wire.NewSet(wire.Value(hidden))\n'}}))
    # every other way an expression written in another package can mention something the injector's package cannot
    qd = ('type Cfg struct{ Retries int; retries int }\nfunc (c Cfg) hiddenM() int { return 1 }\nfunc (c Cfg) Shown() int { return 1 }\nvar Default = Cfg{Retries: 1, retries: 3}\nvar PDefault = &Default\n'
          'type hiddenInt int\nconst hiddenConst = 4\nfunc hiddenFunc() int { return 1 }\ntype wrap struct{ N int }\nvar Nested = struct{ Inner Cfg }{}\n')
    inacc = [
        ('unexported field selected from an exported variable', 'wire.Value(Default.retries)', 'int'),
        ('unexported field selected through an exported pointer variable', 'wire.Value(PDefault.retries)', 'int'),
        ('unexported field selected two levels down', 'wire.Value(Nested.Inner.retries)', 'int'),
        ('composite literal with an unexported field key', 'wire.Value(Cfg{retries: 3})', 'q.Cfg'),
        ('unexported method value', 'wire.Value(Default.hiddenM)', 'func() int'),
        ('conversion through an unexported type', 'wire.Value(int(hiddenInt(3)))', 'int'),
        ('unexported constant', 'wire.Value(hiddenConst + 1)', 'int'),
        ('unexported function value', 'wire.Value(hiddenFunc)', 'func() int'),
        ('composite literal of an unexported type', 'wire.Value(wrap{N: 1}.N)', 'int'),
        ('unexported field inside an index expression', 'wire.Value([]int{1, 2, 3, 4}[Default.retries])', 'int'),
    ]
    for lab, item, rty in inacc:
        files = {
            'providers.go': 'package {PKG}\n',
            'wire.go': '//go:build wireinject\n// +build wireinject\n\npackage {PKG}\n\nimport (\n\t"github.com/google/wire"\n\t"example.com/corpus/{PKG}/q"\n)\n\nvar _ q.Cfg\n\nfunc Inject() %s {\n\tpanic(wire.Build(q.Set))\n}\n' % rty,
        }
        specs.append(RawSpec(files, 'rejected value form: written in another package, ' + lab, expect='reject', reject_props=['C13'], family='values',
                             extra_pkgs={'q': {'q.go': 'package q\n\nimport "github.com/google/wire"\n\n%s\nvar Set = wire.NewSet(wire.Value(%s))\n' % (qd, item[len('wire.Value('):-1])}}))
    # an expression written in another package whose variables have namesakes in the injector's package: the copy
    # must refer to the home package's variables (silent if it does not: it still compiles)
    files = {
        'providers.go': 'package {PKG}\n\ntype conf struct {\n\tName string\n\tPort int\n}\n\nvar Cfg = conf{"app", 1}\nvar Ports = []int{1, 2, 3}\nvar Table = map[string]int{"k": 1}\n',
        'wire.go': ('//go:build wireinject\n// +build wireinject\n\npackage {PKG}\n\nimport (\n\t"github.com/google/wire"\n\t"example.com/corpus/{PKG}/q"\n)\n\n'
                    'func InjectPort() int {\n\tpanic(wire.Build(q.SetPort))\n}\n\nfunc InjectName() q.Name {\n\tpanic(wire.Build(q.SetName))\n}\n\nfunc InjectElem() int8 {\n\tpanic(wire.Build(q.SetElem))\n}\n\nfunc InjectEntry() int16 {\n\tpanic(wire.Build(q.SetEntry))\n}\n'),
        'zz_driver.go': ('//go:build !wireinject\n// +build !wireinject\n\npackage {PKG}\n\nimport (\n\t"example.com/corpus/vrt"\n\t"example.com/corpus/{PKG}/q"\n)\n\nfunc VDrive() {\n'
                         '\tvrt.A("C13", InjectPort() == q.Cfg.Port && InjectPort() != Cfg.Port, "a field selected from a variable of the home package (a namesake exists in the injector\'s package)")\n'
                         '\tvrt.A("C13", InjectName() == q.Name(q.Cfg.Name), "a conversion of a field selected from a variable of the home package")\n'
                         '\tvrt.A("C13", InjectElem() == int8(q.Ports[1]), "an element of a slice variable of the home package")\n'
                         '\tvrt.A("C13", InjectEntry() == int16(q.Table["k"]), "an entry of a map variable of the home package")\n\tvrt.Cover("values-checked")\n}\n'),
    }
    qsrc = ('package q\n\nimport (\n\t"example.com/corpus/vrt"\n\t"github.com/google/wire"\n)\n\ntype Name string\n\ntype Conf struct {\n\tName string\n\tPort int\n}\n\nvar Base = vrt.ArgID("base")\n\n'
            'var Cfg = Conf{"bar", Base + 8080}\nvar Ports = []int{70, 80, 90}\nvar Table = map[string]int{"k": 500}\n\n'
            'var SetPort = wire.NewSet(wire.Value(Cfg.Port))\nvar SetName = wire.NewSet(wire.Value(Name(Cfg.Name)))\nvar SetElem = wire.NewSet(wire.Value(int8(Ports[1])))\nvar SetEntry = wire.NewSet(wire.Value(int16(Table["k"])))\n')
    specs.append(RawSpec(files, 'values written in another package from variables that have namesakes in the injector\'s package (selector, conversion, index, map entry)', family='values',
                         extra_pkgs={'q': {'q.go': qsrc}}))
    # the accessibility check does not depend on the injector's result list
    for sig, ret in (('(int, func(), error)', ''), ('(int, error)', ''), ('(int, func())', '')):
        files = {
            'providers.go': 'package {PKG}\n',
            'wire.go': '//go:build wireinject\n// +build wireinject\n\npackage {PKG}\n\nimport (\n\t"github.com/google/wire"\n\t"example.com/corpus/{PKG}/q"\n)\n\nfunc Inject() %s {\n\tpanic(wire.Build(q.Set))\n}\n' % sig,
        }
        specs.append(RawSpec(files, 'rejected value form: unexported variable of another package, injector returning %s' % sig, expect='reject', reject_props=['C13'], family='values',
                             extra_pkgs={'q': {'q.go': 'package q\n\nimport "github.com/google/wire"\n\nvar hidden = 3\nvar Set = wire.NewSet(wire.Value(hidden))\n'}}))
    files = {
        'providers.go': 'package {PKG}\n\ntype Cfg struct{ Port int }\n\nvar cfg = Cfg{Port: 80}\n',
        'wire.go': '//go:build wireinject\n// +build wireinject\n\npackage {PKG}\n\nimport "github.com/google/wire"\n\nfunc Inject(cfg Cfg) (int, func(), error) {\n\tpanic(wire.Build(wire.Value(cfg.Port)))\n}\n',
    }
    specs.append(RawSpec(files, 'rejected value form: an injector parameter (a package-level namesake exists), injector returning (int, func(), error)', expect='reject', reject_props=['C13'], family='values'))
    # the value's home package has the same *name* as the injector's package (another path): its variables are still its own
    files = {
        'providers.go': 'package {PKG}\n\nvar Endpoint = 1\n',
        'wire.go': ('//go:build wireinject\n// +build wireinject\n\npackage {PKG}\n\nimport (\n\t"github.com/google/wire"\n\tlib "example.com/corpus/{PKG}/lib"\n)\n\nfunc Inject() int {\n\tpanic(wire.Build(lib.Set))\n}\n'),
        'zz_driver.go': ('//go:build !wireinject\n// +build !wireinject\n\npackage {PKG}\n\nimport (\n\t"example.com/corpus/vrt"\n\tlib "example.com/corpus/{PKG}/lib"\n)\n\nfunc VDrive() {\n'
                         '\tvrt.A("C13", Inject() == lib.Endpoint && Inject() != Endpoint, "a value written in a package that has the injector package\'s name (another path) refers to its own variables")\n\tvrt.Cover("values-checked")\n}\n'),
    }
    specs.append(RawSpec(files, 'value written in a package whose name equals the injector package\'s name (different import path), namesake variable in both', family='values',
                         extra_pkgs={'lib': {'lib.go': 'package {PKG}\n\nimport (\n\t"example.com/corpus/vrt"\n\t"github.com/google/wire"\n)\n\nvar Endpoint = vrt.ArgID("base") + 7\n\nvar Set = wire.NewSet(wire.Value(Endpoint))\n'}}))
    # ... and the accessible counterparts (exported field / method value of an exported variable) are accepted
    files = {
        'providers.go': 'package {PKG}\n',
        'wire.go': '//go:build wireinject\n// +build wireinject\n\npackage {PKG}\n\nimport (\n\t"github.com/google/wire"\n\t"example.com/corpus/{PKG}/q"\n)\n\nfunc Inject() int {\n\tpanic(wire.Build(q.Set))\n}\n\nfunc InjectM() func() int {\n\tpanic(wire.Build(q.SetM))\n}\n',
        'zz_driver.go': '//go:build !wireinject\n// +build !wireinject\n\npackage {PKG}\n\nimport "example.com/corpus/vrt"\n\nfunc VDrive() {\n\tvrt.A("C13", Inject() == 1 && InjectM()() == 1, "exported field and method value of an exported variable of another package")\n\tvrt.Cover("values-checked")\n}\n',
    }
    specs.append(RawSpec(files, 'value written in another package from an exported field and an exported method value', family='values',
                         extra_pkgs={'q': {'q.go': 'package q\n\nimport "github.com/google/wire"\n\n%s\nvar Set = wire.NewSet(wire.Value(Default.Retries))\nvar SetM = wire.NewSet(wire.Value(Default.Shown))\n' % qd}}))
    return specs


def family_reject():
    """F6: end-to-end confirmations of the rejection rules (C05, C06, C08, C07, C09, C11, C12) through the real front end."""
    specs = []
    base = 'type A struct{ ID int }\ntype B struct{ ID int }\ntype I interface{ M() }\ntype C struct{ ID int }\nfunc (c *C) M() {}\nfunc NewA() A { return A{} }\nfunc NewA2() A { return A{} }\nfunc NewB(a A) B { return B{} }\nfunc NewC() *C { return &C{} }\nfunc NewCV() C { return C{} }\ntype S struct{ A A; name string; Name int }\nvar VA = A{ID: 1}\n'
    cases = [
        (['C05'], 'two provider functions for one type', 'B', 'NewA, NewA2, NewB'),
        (['C05'], 'provider function and value of one type', 'B', 'NewA, wire.Value(VA), NewB'),
        (['C05'], 'provider and struct provider of one type', 'B', 'NewA, wire.Struct(new(A)), NewB'),
        (['C05'], 'same set along two paths', 'B', 'wire.NewSet(SetA), SetA, NewB'),
        (['C05'], 'injector argument and provider of one type', 'B', 'NewA, NewB', 'a A'),
        (['C05'], 'blank injector argument and provider of one type', 'B', 'NewA, NewB', '_ A'),
        (['C05'], 'blank injector argument and a set providing its type', 'B', 'SetA, NewB', '_ A'),
        (['C06'], 'missing leaf', 'B', 'NewB'),
        (['C06'], 'pointer counterpart does not satisfy value', 'C', 'NewC'),
        (['C06', 'C11'], 'implementation does not satisfy interface without binding', 'I', 'NewC'),
        (['C08'], 'unused provider', 'A', 'NewA, NewC'),
        (['C08'], 'unused value', 'B', 'NewA, NewB, wire.Value(3)'),
        (['C08'], 'unused binding', 'A', 'NewA, NewC, wire.Bind(new(I), new(*C))'),
        (['C11'], 'binding of a value type whose method has a pointer receiver', 'I', 'NewCV, wire.Bind(new(I), new(C))'),
        (['C11'], 'binding without provider of the concrete type in the same set', 'I', 'wire.NewSet(wire.Bind(new(I), new(*C))), NewC'),
        (['C11'], 'interface bound to itself', 'I', 'wire.Bind(new(I), new(I))'),
        (['C12'], 'unknown field name', 'S', 'NewA, wire.Struct(new(S), "Nope")'),
        (['C12'], 'field name differing only in case from an existing field', 'S', 'NewA, wire.Struct(new(S), "a")'),
        (['C12'], 'field provider naming a prevented field', 'A', 'wire.Value(SPrev{}), wire.FieldsOf(new(SPrev), "A")'),
        (['C12'], 'field provider naming a prevented field of a struct provided by pointer', 'A', 'wire.Value(&SPrev{}), wire.FieldsOf(new(*SPrev), "A")'),
        (['C12'], 'struct provider naming a prevented field', 'SPrev', 'NewA, wire.Struct(new(SPrev), "A")'),
        (['C07'], 'cycle', 'CycA', 'NewCycA, NewCycB'),
        (['C09'], 'two parameters of identical type spelled byte / uint8', 'B', 'NewA, NewSpelled'),
        (['C09'], 'two struct fields of identical type spelled differently (func types differing in parameter names)', 'Hooks', 'wire.Struct(new(Hooks), "*"), wire.Value(func(req string) error { return nil })'),
        (['C11'], 'interface bound to an interface that does not implement it', 'I', 'NewJ, wire.Bind(new(I), new(J))'),
        (['C08'], 'two inline sets, one of them unused', 'A', 'wire.NewSet(NewA), wire.NewSet(NewC)'),
        (['C08'], 'unused field provider', 'A', 'NewA, wire.Value(S{}), wire.FieldsOf(new(S), "Name")'),
        (['C09'], 'provider without results', 'A', 'NewA, NoResult'),
        (['C08'], 'unused field provider followed by a used one (two wire.FieldsOf items)', 'A', 'wire.Value(S{}), wire.FieldsOf(new(S), "Name"), wire.FieldsOf(new(S), "A")'),
        (['C08'], 'unused value followed by a used one', 'A', 'wire.Value(3), wire.Value(VA)'),
        (['C08'], 'unused binding followed by a used one', 'I', 'NewC, NewJ, wire.Bind(new(J2), new(J)), wire.Bind(new(I), new(*C))'),
        (['C06', 'C07', 'C20'], 'field provider whose struct has no source, the field consumed by a provider', 'B', 'wire.FieldsOf(new(S), "A"), NewB'),
        (['C06', 'C07', 'C20'], 'field provider whose struct\'s provider lacks an input, the field consumed by a provider', 'B', 'wire.FieldsOf(new(S), "A"), NewSFromCV, NewB'),
        (['C06', 'C20'], 'field provider whose struct has no source, the field is the result', 'A', 'wire.FieldsOf(new(S), "A")'),
        (['C06', 'C12'], 'fields of a defined pointer type SP whose source is only the plain pointer type *S', 'A', 'NewSPtr, wire.FieldsOf(new(SP), "A")'),
        (['C06'], 'a defined type whose underlying type is provided', 'MyA', 'NewA, NeedsMyA'),
        (['C09'], 'struct provider "*" with two fields of identical type', 'Twin', 'NewA, wire.Struct(new(Twin), "*")'),
        (['C09'], 'struct provider naming two fields of identical type', 'Twin', 'NewA, wire.Struct(new(Twin), "X", "Y")'),
        (['C09'], 'provider whose third result is a concrete type implementing error', '(A, func(), error)', 'NewAMyErr'),
        (['C09'], 'provider whose second result is a concrete type implementing error', '(A, error)', 'NewAMyErr2'),
        (['C09', 'C20'], 'injector without results', '', 'NewA'),
        (['C09', 'C20'], 'injector without results and with a parameter', '', 'NewB', 'a A'),
        # the same source reached twice / sibling sets, through every way the front end merges sets
        (['C05'], 'the same set twice in one call', 'B', 'SetA, SetA, NewB'),
        (['C05'], 'a set and an alias variable of it', 'B', 'SetA, SetAlias, NewB'),
        (['C05'], 'two sibling inline sets providing one type', 'B', 'wire.NewSet(NewA), wire.NewSet(NewA2), NewB'),
        (['C05'], 'an inline set and a named set providing one type', 'B', 'wire.NewSet(NewA2), SetA, NewB'),
        (['C05'], 'two inline sets nested in inline sets providing one type', 'B', 'wire.NewSet(wire.NewSet(NewA)), wire.NewSet(wire.NewSet(NewA2)), NewB'),
        (['C05'], 'sibling inline sets with a provider and a value of one type', 'B', 'wire.NewSet(NewA), wire.NewSet(wire.Value(VA)), NewB'),
        (['C05'], 'two named sets providing one type', 'B', 'SetA, SetA2, NewB'),
        # cycles through every kind of edge, in sets of every shape, on and off the injector's result
        (['C07'], 'cycle closed by a binding in a set that only re-exports another set, result off the cycle', 'Other', 'SetCycWrap'),
        (['C07'], 'cycle closed by a binding two re-exporting sets away, result off the cycle', 'Other', 'SetCycWrap2'),
        (['C07'], 'cycle closed by a binding in a re-exporting set, result on the cycle', '*Foo', 'SetCycWrap'),
        (['C07'], 'cycle closed by a binding in an inline set', 'Other', 'wire.NewSet(SetCycBase, wire.Bind(new(Fooer), new(*Foo)))'),
        (['C07'], 'cycle in a nested set, result off the cycle', 'A', 'SetCyc'),
        (['C07'], 'cycle through a struct provider', 'SA', 'wire.Struct(new(SA), "*"), NewCycB2'),
        (['C07'], 'cycle through a field provider', 'G', 'NewSF, wire.FieldsOf(new(SF), "G")'),
        (['C07'], 'provider depending on its own result', 'Self', 'NewSelf'),
        (['C07'], 'cycle of three providers behind a value', 'B', 'NewA, NewB, wire.NewSet(NewC3a, NewC3b, NewC3c)'),
    ]
    extra = 'type SPrev struct {\n\tA A `wire:"-"`\n\tN int\n}\n' + 'type MyErr struct{}\nfunc (*MyErr) Error() string { return "" }\nfunc NewAMyErr() (A, func(), *MyErr) { return A{}, nil, nil }\nfunc NewAMyErr2() (A, *MyErr) { return A{}, nil }\ntype SP *S\nfunc NewSPtr() *S { return &S{} }\ntype MyA A\nfunc NeedsMyA(m MyA) MyA { return m }\nfunc NewSFromCV(c C) S { return S{} }\ntype Twin struct{ X A; Y A }\ntype J2 interface{ Other() }\ntype J interface{ Other() }\ntype jimpl struct{}\nfunc (jimpl) Other() {}\nfunc NewJ() J { return jimpl{} }\nfunc NewSpelled(lo uint8, hi byte) B { return B{} }\ntype Hooks struct {\n\tBefore func(req string) error\n\tAfter  func(resp string) error\n}\ntype CycA struct{}\ntype CycB struct{}\nfunc NewCycA(b CycB) CycA { return CycA{} }\nfunc NewCycB(a CycA) CycB { return CycB{} }\nfunc NoResult() {}\n'
    extra += ('type Fooer interface{ Foo() }\ntype Foo struct{}\nfunc (*Foo) Foo() {}\nfunc NewFoo(f Fooer) *Foo { return &Foo{} }\ntype Other struct{}\nfunc NewOther() Other { return Other{} }\n'
              'type SA struct{ B CycB2 }\ntype CycB2 struct{}\nfunc NewCycB2(a SA) CycB2 { return CycB2{} }\ntype G struct{}\ntype SF struct{ G G }\nfunc NewSF(g G) SF { return SF{} }\n'
              'type Self struct{}\nfunc NewSelf(s Self) Self { return s }\ntype C3a struct{}\ntype C3b struct{}\ntype C3c struct{}\nfunc NewC3a(x C3c) C3a { return C3a{} }\nfunc NewC3b(x C3a) C3b { return C3b{} }\nfunc NewC3c(x C3b) C3c { return C3c{} }\n')
    setvars = ('var SetA = wire.NewSet(NewA)\n\nvar SetAlias = SetA\n\nvar SetA2 = wire.NewSet(NewA2)\n\nvar SetCycBase = wire.NewSet(NewFoo, NewOther)\n\n'
               'var SetCycWrap = wire.NewSet(SetCycBase, wire.Bind(new(Fooer), new(*Foo)))\n\nvar SetCycWrap2 = wire.NewSet(SetCycWrap)\n\nvar SetCyc = wire.NewSet(NewCycA, NewCycB, NewA)\n')
    for c in cases:
        props, lab, rty, items = c[0], c[1], c[2], c[3]
        args = c[4] if len(c) > 4 else ''
        files = {
            'providers.go': 'package {PKG}\n\n' + base + extra,
            'wire.go': '//go:build wireinject\n// +build wireinject\n\npackage {PKG}\n\nimport "github.com/google/wire"\n\n%s\nfunc Inject(%s) %s {\n\tpanic(wire.Build(%s))\n}\n' % (setvars, args, rty, items),
        }
        specs.append(RawSpec(files, 'must be rejected: ' + lab, expect='reject', reject_props=props, family='reject'))
    # injectors in two files: the diagnostics of one file must survive the (clean) analysis of the other, whichever comes first
    hdr = '//go:build wireinject\n// +build wireinject\n\npackage {PKG}\n\nimport "github.com/google/wire"\n\n'
    bad = 'func InjectBad() B {\n\tpanic(wire.Build(NewB))\n}\n'
    good = 'func InjectGood() A {\n\tpanic(wire.Build(NewA))\n}\n'
    for lab, first, second, third in (('first', bad, good, None), ('last', good, bad, None), ('middle', good, bad, good.replace('InjectGood', 'InjectGood2'))):
        files = {'providers.go': 'package {PKG}\n\n' + base + extra, 'inject_a.go': hdr + first, 'inject_b.go': hdr + second}
        if third:
            files['inject_c.go'] = hdr + third
        sp = RawSpec(files, 'must be rejected: injectors in %d files, the one with a missing leaf in the %s file' % (len(files) - 1, lab), expect='reject', reject_props=['C06', 'C17'], family='reject')
        sp.diag_must_contain = 'no provider found'
        specs.append(sp)
    # functions that call wire.Build but are not of the injector form (C20: the refusal needs a position; see D17)
    for lab, body in (('injector with a statement besides the wire.Build call', '\t_ = 42\n\tpanic(wire.Build(NewA))\n'),
                      ('injector with two wire.Build calls', '\tpanic(wire.Build(NewA))\n\tpanic(wire.Build(NewA))\n')):
        files = {
            'providers.go': 'package {PKG}\n\n' + base + extra,
            'wire.go': '//go:build wireinject\n// +build wireinject\n\npackage {PKG}\n\nimport "github.com/google/wire"\n\nfunc Inject() A {\n%s}\n' % body,
        }
        specs.append(RawSpec(files, 'must be rejected: ' + lab, expect='reject', reject_props=['C20'], family='reject'))
    return specs


def family_packages():
    """F7: providers and sets spread over several packages, including packages with the same name under different
    import paths that export equally named providers, two injectors in one package (shared object cache), and
    providers from external modules (which the GOPATH+vendor run of the C16 supplement resolves from vendor/),
    one of them with the text vendor/ inside a path element."""
    specs = []
    ext = {
        'example.org/vlib': {'vlib.go': 'package vlib\n\ntype Cfg struct{ ID int }\n\nfunc NewCfg() Cfg { return Cfg{ID: 4242} }\n'},
        'example.org/govendor/ctx': {'ctx.go': 'package ctx\n\ntype Ctx struct{ ID int }\n\nfunc NewCtx() *Ctx { return &Ctx{ID: 4343} }\n'},
    }
    files = {
        'providers.go': ('package {PKG}\n\nimport (\n\t"example.com/corpus/vrt"\n\t"example.org/govendor/ctx"\n\t"example.org/vlib"\n)\n\ntype App struct{ ID int }\n\n'
                         'func NewApp(c vlib.Cfg, x *ctx.Ctx) App {\n\tid, _ := vrt.Call(0, false, c.ID, x.ID)\n\treturn App{ID: id}\n}\n'),
        'wire.go': ('//go:build wireinject\n// +build wireinject\n\npackage {PKG}\n\nimport (\n\t"github.com/google/wire"\n\t"example.org/govendor/ctx"\n\t"example.org/vlib"\n)\n\n'
                    'func Inject() App {\n\tpanic(wire.Build(vlib.NewCfg, ctx.NewCtx, NewApp))\n}\n\nfunc InjectCtx() (*ctx.Ctx, error) {\n\tpanic(wire.Build(ctx.NewCtx))\n}\n'),
        'zz_driver.go': ('//go:build !wireinject\n// +build !wireinject\n\npackage {PKG}\n\nimport "example.com/corpus/vrt"\n\nfunc VDrive() {\n'
                         '\tspec := &vrt.Spec{Nodes: []vrt.Node{{Name: "NewApp", Kind: vrt.KFunc, Params: []vrt.Ref{{Node: -1, Const: 4242}, {Node: -1, Const: 4343}}}}, Result: []vrt.Ref{{Node: 0}}, ArgIDs: make([][]int, 1)}\n'
                         '\tvrt.Reset()\n\tres := Inject()\n\tvrt.Check(spec, vrt.Outcome{Result: []int{res.ID}, CleanupNil: true})\n'
                         '\tc, err := InjectCtx()\n\tvrt.A("C02", err == nil && c != nil && c.ID == 4343, "injector returning a type of an external module")\n}\n'),
    }
    specs.append(RawSpec(files, 'providers and types from external modules (one import path with the text vendor/ inside an element)', family='packages', ext_modules=ext))
    # a set declared three packages away: app -> feature.Set -> storage.Set (storage is not imported by app)
    files = {
        'providers.go': ('package {PKG}\n\nimport (\n\t"example.com/corpus/vrt"\n\t"example.com/corpus/{PKG}/feature"\n)\n\ntype App struct{ ID int }\n\n'
                         'func NewApp(s feature.Service) App {\n\tid, _ := vrt.Call(0, false, s.ID)\n\treturn App{ID: id}\n}\n'),
        'wire.go': ('//go:build wireinject\n// +build wireinject\n\npackage {PKG}\n\nimport (\n\t"github.com/google/wire"\n\t"example.com/corpus/{PKG}/feature"\n)\n\nfunc Inject() App {\n\tpanic(wire.Build(feature.Set, NewApp))\n}\n'),
        'zz_driver.go': ('//go:build !wireinject\n// +build !wireinject\n\npackage {PKG}\n\nimport "example.com/corpus/vrt"\n\nfunc VDrive() {\n'
                         '\tspec := &vrt.Spec{Nodes: []vrt.Node{{Name: "NewApp", Kind: vrt.KFunc, Params: []vrt.Ref{{Node: 1}}}, {Name: "feature.NewService", Kind: vrt.KFunc, Params: []vrt.Ref{{Node: 2}}}, {Name: "storage.NewStore", Kind: vrt.KFunc, Params: []vrt.Ref{{Node: 3}}}, {Name: "deep.NewCfg", Kind: vrt.KFunc}}, Result: []vrt.Ref{{Node: 0}}, ArgIDs: make([][]int, 4)}\n'
                         '\tvrt.Reset()\n\tres := Inject()\n\tvrt.Check(spec, vrt.Outcome{Result: []int{res.ID}, CleanupNil: true})\n}\n'),
    }
    extra = {
        'feature': {'feature.go': ('package feature\n\nimport (\n\t"example.com/corpus/vrt"\n\t"example.com/corpus/{PKG}/storage"\n\t"github.com/google/wire"\n)\n\ntype Service struct{ ID int }\n\n'
                                    'func NewService(s storage.Store) Service {\n\tid, _ := vrt.Call(1, false, s.ID)\n\treturn Service{ID: id}\n}\n\nvar Set = wire.NewSet(storage.Set, NewService)\n')},
        'storage': {'storage.go': ('package storage\n\nimport (\n\t"example.com/corpus/vrt"\n\t"example.com/corpus/{PKG}/storage/deep"\n\t"github.com/google/wire"\n)\n\ntype Store struct{ ID int }\n\n'
                                    'func NewStore(c deep.Cfg) Store {\n\tid, _ := vrt.Call(2, false, c.ID)\n\treturn Store{ID: id}\n}\n\nvar Set = wire.NewSet(deep.Set, NewStore)\n')},
        'storage/deep': {'deep.go': ('package deep\n\nimport (\n\t"example.com/corpus/vrt"\n\t"github.com/google/wire"\n)\n\ntype Cfg struct{ ID int }\n\nfunc NewCfg() Cfg {\n\tid, _ := vrt.Call(3, false)\n\treturn Cfg{ID: id}\n}\n\nvar Set = wire.NewSet(NewCfg)\n')},
    }
    specs.append(RawSpec(files, 'provider sets nested across four packages (the inner sets are declared in packages the injector package does not import)', family='packages', extra_pkgs=extra))
    # homonymous packages: the set the injector names lacks a source that the other package's equally named set has
    def store(node, with_dsn):
        dsn = 'func DefaultDSN() cfg.DSN { return cfg.DSN{ID: %d} }\n\n' % (900 + node) if with_dsn else ''
        items = 'DefaultDSN, New' if with_dsn else 'New'
        return ('package store\n\nimport (\n\t"example.com/corpus/{PKG}/cfg"\n\t"github.com/google/wire"\n)\n\ntype Store%d struct{ ID int }\n\n%sfunc New(d cfg.DSN) Store%d { return Store%d{ID: d.ID} }\n\nvar Defaults = wire.NewSet(%s)\n' % (node, dsn, node, node, items))
    files = {
        'providers.go': 'package {PKG}\n',
        'wire.go': ('//go:build wireinject\n// +build wireinject\n\npackage {PKG}\n\nimport (\n\t"github.com/google/wire"\n\tbilling "example.com/corpus/{PKG}/billing/store"\n\tusers "example.com/corpus/{PKG}/users/store"\n)\n\n'
                    'func InitBilling() billing.Store1 {\n\tpanic(wire.Build(billing.Defaults))\n}\n\nfunc InitUsers() users.Store2 {\n\tpanic(wire.Build(users.Defaults))\n}\n'),
    }
    extra = {'cfg': {'cfg.go': 'package cfg\n\ntype DSN struct{ ID int }\n'}, 'billing/store': {'store.go': store(1, True)}, 'users/store': {'store.go': store(2, False)}}
    sp = RawSpec(files, 'must be rejected: the named set lacks a source that an equally named set of an equally named package has', expect='reject', reject_props=['C06'], family='packages', extra_pkgs=extra)
    sp.diag_must_contain = 'DSN'
    specs.append(sp)
    # one provider set with value expressions (composite literals referring to other packages) consumed by two packages
    conf = ('package conf\n\nimport (\n\t"time"\n\n\t"github.com/google/wire"\n)\n\ntype Level int\n\nconst Debug Level = 3\n\ntype Options struct {\n\tTimeout time.Duration\n\tLevel   Level\n\tTags    []string\n}\n\n'
            'var Set = wire.NewSet(wire.Value(Options{Timeout: 5 * time.Second, Level: Debug, Tags: []string{"a", "b"}}), wire.Value(&Extra{Opt: Options{Level: Debug}}))\n\ntype Extra struct{ Opt Options }\n')
    for which in ('a', 'b'):
        files = {
            'providers.go': ('package {PKG}\n\nimport (\n\t"time"\n\n\t"example.com/corpus/vrt"\n\t"example.com/corpus/zzconf/conf"\n)\n\ntype App struct{ ID int }\n\n'
                             'func NewApp(o conf.Options, e *conf.Extra) App {\n\tid, _ := vrt.Call(0, false, int(o.Timeout/time.Second), int(o.Level), len(o.Tags), int(e.Opt.Level))\n\treturn App{ID: id}\n}\n'),
            'wire.go': ('//go:build wireinject\n// +build wireinject\n\npackage {PKG}\n\nimport (\n\t"github.com/google/wire"\n\t"example.com/corpus/zzconf/conf"\n)\n\nfunc Inject() App {\n\tpanic(wire.Build(conf.Set, NewApp))\n}\n'),
            'zz_driver.go': ('//go:build !wireinject\n// +build !wireinject\n\npackage {PKG}\n\nimport "example.com/corpus/vrt"\n\nfunc VDrive() {\n'
                             '\tspec := &vrt.Spec{Nodes: []vrt.Node{{Name: "NewApp", Kind: vrt.KFunc, Params: []vrt.Ref{{Node: -1, Const: 5}, {Node: -1, Const: 3}, {Node: -1, Const: 2}, {Node: -1, Const: 3}}}}, Result: []vrt.Ref{{Node: 0}}, ArgIDs: make([][]int, 1)}\n'
                             '\tvrt.Reset()\n\tres := Inject()\n\tvrt.Check(spec, vrt.Outcome{Result: []int{res.ID}, CleanupNil: true})\n}\n'),
        }
        specs.append(RawSpec(files, 'value expressions of a shared provider set (composite literals referring to time and conf) consumed by package %s of two' % which, family='packages',
                             shared_pkgs={'zzconf/conf': {'conf.go': conf}}))
    def cfg(node):
        return ('package config\n\nimport (\n\t"example.com/corpus/vrt"\n\t"example.com/corpus/{PKG}/settings"\n\t"github.com/google/wire"\n)\n\n'
                'func New() settings.Settings {\n\tid, _ := vrt.Call(%d, false)\n\treturn settings.Settings{ID: id}\n}\n\nvar Set = wire.NewSet(New)\n' % node)
    for use_set in (False, True):
        item1 = 'prodcfg.Set' if use_set else 'prodcfg.New'
        item2 = 'stagecfg.Set' if use_set else 'stagecfg.New'
        files = {
            'providers.go': ('package {PKG}\n\nimport (\n\t"example.com/corpus/vrt"\n\t"example.com/corpus/{PKG}/settings"\n)\n\ntype App struct{ ID int }\n\n'
                             'func NewApp(s settings.Settings) App {\n\tid, _ := vrt.Call(0, false, s.ID)\n\treturn App{ID: id}\n}\n'),
            'wire.go': ('//go:build wireinject\n// +build wireinject\n\npackage {PKG}\n\nimport (\n\t"github.com/google/wire"\n\tprodcfg "example.com/corpus/{PKG}/prod/config"\n\tstagecfg "example.com/corpus/{PKG}/staging/config"\n)\n\n'
                        'func InjectProd() App {\n\tpanic(wire.Build(%s, NewApp))\n}\n\nfunc InjectStaging() App {\n\tpanic(wire.Build(%s, NewApp))\n}\n' % (item1, item2)),
            'zz_driver.go': ('//go:build !wireinject\n// +build !wireinject\n\npackage {PKG}\n\nimport "example.com/corpus/vrt"\n\nfunc VDrive() {\n'
                             '\tfor which := 1; which <= 2; which++ {\n\t\tspec := &vrt.Spec{}\n\t\tspec.Nodes = []vrt.Node{\n'
                             '\t\t\t{Name: "NewApp", Kind: vrt.KFunc, Params: []vrt.Ref{{Node: which}}},\n\t\t\t{Name: "prod/config.New", Kind: vrt.KFunc},\n\t\t\t{Name: "staging/config.New", Kind: vrt.KFunc},\n\t\t}\n'
                             '\t\tspec.Result = []vrt.Ref{{Node: 0}}\n\t\tspec.ArgIDs = make([][]int, 3)\n\t\tvrt.Reset()\n\t\tvar res App\n\t\tif which == 1 {\n\t\t\tres = InjectProd()\n\t\t} else {\n\t\t\tres = InjectStaging()\n\t\t}\n'
                             '\t\tvrt.Check(spec, vrt.Outcome{Result: []int{res.ID}, CleanupNil: true})\n\t}\n}\n'),
        }
        extra = {'settings': {'settings.go': 'package settings\n\ntype Settings struct{ ID int }\n'},
                 'prod/config': {'config.go': cfg(1)}, 'staging/config': {'config.go': cfg(2)}}
        specs.append(RawSpec(files, 'two injectors using equally named providers from two packages both named config (via %s)' % ('provider sets' if use_set else 'functions'),
                             family='packages', extra_pkgs=extra))
        specs[-1].extra_props = ['C14']
    # ... and one injector that uses equally named sets of both packages at once (they provide different types)
    def store(node, ty):
        return ('package store\n\nimport (\n\t"example.com/corpus/vrt"\n\t"github.com/google/wire"\n)\n\ntype %s struct{ ID int }\n\n'
                'func Open() %s {\n\tid, _ := vrt.Call(%d, false)\n\treturn %s{ID: id}\n}\n\nvar Set = wire.NewSet(Open)\n' % (ty, ty, node, ty))
    files = {
        'providers.go': ('package {PKG}\n\nimport (\n\t"example.com/corpus/vrt"\n\tpstore "example.com/corpus/{PKG}/primary/store"\n\trstore "example.com/corpus/{PKG}/replica/store"\n)\n\ntype Cluster struct{ ID int }\n\n'
                         'func NewCluster(p pstore.Primary, r rstore.Replica) Cluster {\n\tid, _ := vrt.Call(0, false, p.ID, r.ID)\n\treturn Cluster{ID: id}\n}\n'),
        'wire.go': ('//go:build wireinject\n// +build wireinject\n\npackage {PKG}\n\nimport (\n\t"github.com/google/wire"\n\tpstore "example.com/corpus/{PKG}/primary/store"\n\trstore "example.com/corpus/{PKG}/replica/store"\n)\n\n'
                    'func Inject() Cluster {\n\tpanic(wire.Build(pstore.Set, rstore.Set, NewCluster))\n}\n\nfunc InjectF() Cluster {\n\tpanic(wire.Build(rstore.Open, pstore.Open, NewCluster))\n}\n'),
        'zz_driver.go': ('//go:build !wireinject\n// +build !wireinject\n\npackage {PKG}\n\nimport "example.com/corpus/vrt"\n\nfunc VDrive() {\n'
                         '\tfor which := 0; which < 2; which++ {\n\t\tspec := &vrt.Spec{Nodes: []vrt.Node{{Name: "NewCluster", Kind: vrt.KFunc, Params: []vrt.Ref{{Node: 1}, {Node: 2}}}, {Name: "primary/store.Open", Kind: vrt.KFunc}, {Name: "replica/store.Open", Kind: vrt.KFunc}}, Result: []vrt.Ref{{Node: 0}}, ArgIDs: make([][]int, 3)}\n'
                         '\t\tvrt.Reset()\n\t\tvar res Cluster\n\t\tif which == 0 {\n\t\t\tres = Inject()\n\t\t} else {\n\t\t\tres = InjectF()\n\t\t}\n\t\tvrt.Check(spec, vrt.Outcome{Result: []int{res.ID}, CleanupNil: true})\n\t}\n}\n'),
    }
    specs.append(RawSpec(files, 'one injector using equally named sets (and functions) of two packages both named store', family='packages',
                         extra_pkgs={'primary/store': {'store.go': store(1, 'Primary')}, 'replica/store': {'store.go': store(2, 'Replica')}}))
    specs[-1].extra_props = ['C14']
    # ... cleanup-returning providers of the same name in two packages of the same name, and a later provider that fails
    def api(node, ty):
        return ('package api\n\nimport "example.com/corpus/vrt"\n\ntype %s struct{ ID int }\n\n'
                'func NewClient() (%s, func(), error) {\n\tid, err := vrt.Call(%d, true)\n\tif err != nil {\n\t\treturn %s{}, vrt.FailedCleanupFn(%d), err\n\t}\n\treturn %s{ID: id}, vrt.CleanupFn(%d), nil\n}\n' % (ty, ty, node, ty, node, ty, node))
    files = {
        'providers.go': ('package {PKG}\n\nimport (\n\t"example.com/corpus/vrt"\n\tv1 "example.com/corpus/{PKG}/v1/api"\n\tv2 "example.com/corpus/{PKG}/v2/api"\n)\n\ntype App struct{ ID int }\n\n'
                         'func NewApp(a v1.ClientA, b v2.ClientB) (App, error) {\n\tid, err := vrt.Call(0, true, a.ID, b.ID)\n\tif err != nil {\n\t\treturn App{}, err\n\t}\n\treturn App{ID: id}, nil\n}\n'),
        'wire.go': ('//go:build wireinject\n// +build wireinject\n\npackage {PKG}\n\nimport (\n\t"github.com/google/wire"\n\tv1 "example.com/corpus/{PKG}/v1/api"\n\tv2 "example.com/corpus/{PKG}/v2/api"\n)\n\n'
                    'func Inject() (App, func(), error) {\n\tpanic(wire.Build(v1.NewClient, v2.NewClient, NewApp))\n}\n'),
        'zz_driver.go': ('//go:build !wireinject\n// +build !wireinject\n\npackage {PKG}\n\nimport "example.com/corpus/vrt"\n\nfunc VDrive() {\n'
                         '\tspec := &vrt.Spec{RetErr: true, RetCleanup: true, Nodes: []vrt.Node{{Name: "NewApp", Kind: vrt.KFunc, HasErr: true, Params: []vrt.Ref{{Node: 1}, {Node: 2}}}, {Name: "v1/api.NewClient", Kind: vrt.KFunc, HasErr: true, HasCleanup: true}, {Name: "v2/api.NewClient", Kind: vrt.KFunc, HasErr: true, HasCleanup: true}}, Result: []vrt.Ref{{Node: 0}}}\n'
                         '\tfor round := 0; round < 2; round++ {\n\t\tvrt.Round = round\n\t\tvrt.Reset()\n\t\tspec.ArgIDs = make([][]int, 3)\n\t\tres, cleanup, err := Inject()\n'
                         '\t\tout := vrt.Outcome{Result: []int{res.ID}}\n\t\tout.Cleanup = cleanup\n\t\tout.CleanupNil = cleanup == nil\n\t\tout.Err = err\n\t\tvrt.Check(spec, out)\n\t}\n}\n'),
    }
    specs.append(RawSpec(files, 'cleanup- and error-returning providers of one name in two packages of one name, followed by a provider that can fail', family='packages',
                         extra_pkgs={'v1/api': {'api.go': api(1, 'ClientA')}, 'v2/api': {'api.go': api(2, 'ClientB')}}, compile_props=['C01', 'C03']))
    specs[-1].extra_props = ['C03', 'C04', 'C14']
    # ... an unused provider whose namesake in a package of the same name is used (C08)
    files = {
        'providers.go': 'package {PKG}\n\nimport v1 "example.com/corpus/{PKG}/v1/client"\n\ntype App struct{ ID int }\n\nfunc NewApp(c v1.C1) App { return App{} }\n',
        'wire.go': ('//go:build wireinject\n// +build wireinject\n\npackage {PKG}\n\nimport (\n\t"github.com/google/wire"\n\tv1 "example.com/corpus/{PKG}/v1/client"\n\tv2 "example.com/corpus/{PKG}/v2/client"\n)\n\n'
                    'func Inject() App {\n\tpanic(wire.Build(NewApp, v1.New, v2.New))\n}\n'),
    }
    extra = {'v1/client': {'c.go': 'package client\n\ntype C1 struct{}\n\nfunc New() C1 { return C1{} }\n'}, 'v2/client': {'c.go': 'package client\n\ntype C2 struct{}\n\nfunc New() C2 { return C2{} }\n'}}
    sp = RawSpec(files, 'must be rejected: an unused provider whose namesake in an equally named package is used', expect='reject', reject_props=['C08'], family='packages', extra_pkgs=extra)
    specs.append(sp)
    # ... a set that is ambiguous together with a direct provider, while an equally named set of an equally named
    # package (analysed first) is not (C05); and an ill-formed provider behind the name of a well-formed one (C09)
    files = {
        'providers.go': 'package {PKG}\n\nimport "example.com/corpus/{PKG}/model"\n\nfunc provideConfig() model.Config { return model.Config{} }\n',
        'wire.go': ('//go:build wireinject\n// +build wireinject\n\npackage {PKG}\n\nimport (\n\t"github.com/google/wire"\n\t"example.com/corpus/{PKG}/model"\n\tostore "example.com/corpus/{PKG}/order/store"\n\tustore "example.com/corpus/{PKG}/user/store"\n)\n\n'
                    'func InitUser() model.DB {\n\tpanic(wire.Build(ustore.Set, provideConfig))\n}\n\nfunc InitOrder() model.DB {\n\tpanic(wire.Build(ostore.Set, provideConfig))\n}\n'),
    }
    extra = {'model': {'model.go': 'package model\n\ntype Config struct{ ID int }\ntype DB struct{ ID int }\n'},
             'user/store': {'store.go': 'package store\n\nimport (\n\t"example.com/corpus/{PKG}/model"\n\t"github.com/google/wire"\n)\n\nfunc Open(c model.Config) model.DB { return model.DB{} }\n\nvar Set = wire.NewSet(Open)\n'},
             'order/store': {'store.go': 'package store\n\nimport (\n\t"example.com/corpus/{PKG}/model"\n\t"github.com/google/wire"\n)\n\nfunc Open(c model.Config) model.DB { return model.DB{} }\nfunc DefaultConfig() model.Config { return model.Config{} }\n\nvar Set = wire.NewSet(Open, DefaultConfig)\n'}}
    sp = RawSpec(files, 'must be rejected: a set that conflicts with a direct provider, behind the name of an equally named set of an equally named package that does not', expect='reject', reject_props=['C05'], family='packages', extra_pkgs=extra)
    sp.diag_must_contain = 'Config'
    specs.append(sp)
    files = {
        'providers.go': 'package {PKG}\n',
        'wire.go': ('//go:build wireinject\n// +build wireinject\n\npackage {PKG}\n\nimport (\n\t"github.com/google/wire"\n\t"example.com/corpus/{PKG}/model"\n\tpdb "example.com/corpus/{PKG}/primary/db"\n\trdb "example.com/corpus/{PKG}/replica/db"\n)\n\n'
                    'func InitPrimary() *model.DB {\n\tpanic(wire.Build(pdb.Open))\n}\n\nfunc InitReplica() *model.DB {\n\tpanic(wire.Build(rdb.Open))\n}\n'),
    }
    extra = {'model': {'model.go': 'package model\n\ntype DB struct{ ID int }\n'},
             'primary/db': {'db.go': 'package db\n\nimport "example.com/corpus/{PKG}/model"\n\nfunc Open() *model.DB { return &model.DB{} }\n'},
             'replica/db': {'db.go': 'package db\n\nimport "example.com/corpus/{PKG}/model"\n\nfunc Open() (*model.DB, int) { return &model.DB{}, 0 }\n'}}
    specs.append(RawSpec(files, 'must be rejected: a provider with an illegal second result, behind the name of a well-formed provider of an equally named package', expect='reject', reject_props=['C09'], family='packages', extra_pkgs=extra))
    return specs


def family_frontend():
    """F8: front-end plumbing through real syntax: variadic provider and variadic injector, several injectors sharing
    named sets (object cache), set aliases and a set declared in another package, wire.Build inside panic() and as a
    plain statement, and non-injector declarations in the injector file that must be copied (C15 zoo: generics,
    labels, closures, shadowing of err/cleanup, methods, variables, constants, aliased imports, a local variable
    that collides with a generated import name) and behave like their originals."""
    specs = []
    # --- variadic
    files = {
        'providers.go': ('package {PKG}\n\nimport "example.com/corpus/vrt"\n\ntype Elem struct{ ID int }\ntype Out struct{ ID int }\n\n'
                         'func NewSlice() []Elem {\n\tid, _ := vrt.Call(1, false)\n\treturn []Elem{{ID: id}, {ID: id + 1}}\n}\n\n'
                         'func NewOut(es ...Elem) Out {\n\tvar args []int\n\tfor _, e := range es {\n\t\targs = append(args, e.ID)\n\t}\n\tid, _ := vrt.Call(0, false, args...)\n\treturn Out{ID: id}\n}\n'),
        'wire.go': ('//go:build wireinject\n// +build wireinject\n\npackage {PKG}\n\nimport "github.com/google/wire"\n\n'
                    'func Inject() Out {\n\tpanic(wire.Build(NewSlice, NewOut))\n}\n\nfunc InjectV(es ...Elem) Out {\n\twire.Build(NewOut)\n\treturn Out{}\n}\n'),
        'zz_driver.go': ('//go:build !wireinject\n// +build !wireinject\n\npackage {PKG}\n\nimport "example.com/corpus/vrt"\n\nvar _ func() Out = Inject\nvar _ func(...Elem) Out = InjectV\n\nfunc VDrive() {\n'
                         '\tspec := &vrt.Spec{}\n\tspec.Nodes = []vrt.Node{\n\t\t{Name: "NewOut", Kind: vrt.KFunc, Params: []vrt.Ref{{Node: 1, Comp: 0}, {Node: 1, Comp: 1}}},\n\t\t{Name: "NewSlice", Kind: vrt.KFunc},\n\t}\n'
                         '\tspec.Result = []vrt.Ref{{Node: 0}}\n\tspec.ArgIDs = make([][]int, 2)\n\tvrt.Reset()\n\tres := Inject()\n\tvrt.Check(spec, vrt.Outcome{Result: []int{res.ID}, CleanupNil: true})\n'
                         '\tspec2 := &vrt.Spec{}\n\tspec2.Nodes = []vrt.Node{\n\t\t{Name: "NewOut", Kind: vrt.KFunc, Params: []vrt.Ref{{Node: 1, Comp: 0}, {Node: 1, Comp: 1}, {Node: 1, Comp: 2}}},\n\t\t{Name: "es", Kind: vrt.KArg},\n\t}\n'
                         '\tspec2.Result = []vrt.Ref{{Node: 0}}\n\ta, b, c := vrt.ArgID("e0"), vrt.ArgID("e1"), vrt.ArgID("e2")\n\tspec2.ArgIDs = [][]int{nil, {a, b, c}}\n\tvrt.Reset()\n'
                         '\tres2 := InjectV(Elem{ID: a}, Elem{ID: b}, Elem{ID: c})\n\tvrt.Check(spec2, vrt.Outcome{Result: []int{res2.ID}, CleanupNil: true})\n}\n'),
    }
    specs.append(RawSpec(files, 'variadic provider fed by a slice source; variadic injector', family='frontend'))
    specs[-1].extra_props = ['C02']
    # a variadic parameter of interface type: passing the slice itself instead of spreading it still compiles
    files = {
        'providers.go': ('package {PKG}\n\nimport "example.com/corpus/vrt"\n\ntype Logger struct{ ID int }\ntype Prefix struct{ ID int }\n\n'
                         'func NewSinks() []interface{} {\n\tid, _ := vrt.Call(1, false)\n\treturn []interface{}{id, id + 1}\n}\n\n'
                         'func NewLogger(sinks ...interface{}) Logger {\n\tvar args []int\n\tfor _, s := range sinks {\n\t\tn, ok := s.(int)\n\t\tif !ok {\n\t\t\tn = -1\n\t\t}\n\t\targs = append(args, n)\n\t}\n\tid, _ := vrt.Call(0, false, args...)\n\treturn Logger{ID: id}\n}\n\n'
                         'func NewLogger2(p Prefix, sinks ...interface{}) Logger {\n\targs := []int{p.ID}\n\tfor _, s := range sinks {\n\t\tn, ok := s.(int)\n\t\tif !ok {\n\t\t\tn = -1\n\t\t}\n\t\targs = append(args, n)\n\t}\n\tid, _ := vrt.Call(0, false, args...)\n\treturn Logger{ID: id}\n}\n'),
        'wire.go': ('//go:build wireinject\n// +build wireinject\n\npackage {PKG}\n\nimport "github.com/google/wire"\n\n'
                    'func FromProvider() Logger {\n\tpanic(wire.Build(NewSinks, NewLogger))\n}\n\nfunc FromFirstArg(sinks []interface{}, p Prefix) Logger {\n\tpanic(wire.Build(NewLogger2))\n}\n\nfunc FromVariadicArg(p Prefix, sinks ...interface{}) Logger {\n\tpanic(wire.Build(NewLogger2))\n}\n'),
        'zz_driver.go': ('//go:build !wireinject\n// +build !wireinject\n\npackage {PKG}\n\nimport "example.com/corpus/vrt"\n\nfunc VDrive() {\n'
                         '\tspec := &vrt.Spec{Nodes: []vrt.Node{{Name: "NewLogger", Kind: vrt.KFunc, Params: []vrt.Ref{{Node: 1, Comp: 0}, {Node: 1, Comp: 1}}}, {Name: "NewSinks", Kind: vrt.KFunc}}, Result: []vrt.Ref{{Node: 0}}, ArgIDs: make([][]int, 2)}\n'
                         '\tvrt.Reset()\n\tres := FromProvider()\n\tvrt.Check(spec, vrt.Outcome{Result: []int{res.ID}, CleanupNil: true})\n'
                         '\ta, b, p := vrt.ArgID("s0"), vrt.ArgID("s1"), vrt.ArgID("p")\n'
                         '\tspec2 := &vrt.Spec{Nodes: []vrt.Node{{Name: "NewLogger2", Kind: vrt.KFunc, Params: []vrt.Ref{{Node: 2}, {Node: 1, Comp: 0}, {Node: 1, Comp: 1}}}, {Name: "sinks", Kind: vrt.KArg}, {Name: "p", Kind: vrt.KArg}}, Result: []vrt.Ref{{Node: 0}}}\n'
                         '\tspec2.ArgIDs = [][]int{nil, {a, b}, {p}}\n\tvrt.Reset()\n\tres2 := FromFirstArg([]interface{}{a, b}, Prefix{ID: p})\n\tvrt.Check(spec2, vrt.Outcome{Result: []int{res2.ID}, CleanupNil: true})\n'
                         '\tvrt.Reset()\n\tres3 := FromVariadicArg(Prefix{ID: p}, a, b)\n\tvrt.Check(spec2, vrt.Outcome{Result: []int{res3.ID}, CleanupNil: true})\n}\n'),
    }
    specs.append(RawSpec(files, 'variadic parameter of interface type fed by a provider, by a non-final injector argument and by the injector\'s variadic parameter (the slice must be spread)', family='frontend'))
    specs[-1].extra_props = ['C02']
    # a package that is first mentioned by a struct literal / field selection, after a local named like the package exists
    files = {
        'providers.go': ('package {PKG}\n\nimport (\n\t"example.com/corpus/vrt"\n\t"example.com/corpus/{PKG}/foo"\n\t"example.com/corpus/{PKG}/bar"\n)\n\ntype Foo struct{ ID int }\ntype Bar struct{ ID int }\ntype N struct{ ID int }\ntype App struct{ ID int }\n\n'
                         'func NewFoo() Foo {\n\tid, _ := vrt.Call(1, false)\n\treturn Foo{ID: id}\n}\n\nfunc NewBar() Bar {\n\tid, _ := vrt.Call(4, false)\n\treturn Bar{ID: id}\n}\n\nfunc NewN() int {\n\tid, _ := vrt.Call(2, false)\n\treturn id\n}\n\n'
                         'func NewApp(f Foo, c foo.Config, b Bar, s string) App {\n\tid, _ := vrt.Call(0, false, f.ID, c.N, b.ID, len(s))\n\treturn App{ID: id}\n}\n\nvar _ = bar.Settings{}\n'),
        'wire.go': ('//go:build wireinject\n// +build wireinject\n\npackage {PKG}\n\nimport (\n\t"github.com/google/wire"\n\t"example.com/corpus/{PKG}/bar"\n\t"example.com/corpus/{PKG}/foo"\n)\n\n'
                    'func Inject() App {\n\tpanic(wire.Build(NewFoo, NewBar, NewN, wire.Struct(new(foo.Config), "N"), wire.Value(bar.Settings{Name: "abc"}), wire.FieldsOf(new(bar.Settings), "Name"), NewApp))\n}\n'),
        'zz_driver.go': ('//go:build !wireinject\n// +build !wireinject\n\npackage {PKG}\n\nimport "example.com/corpus/vrt"\n\nfunc VDrive() {\n'
                         '\tspec := &vrt.Spec{Nodes: []vrt.Node{{Name: "NewApp", Kind: vrt.KFunc, Params: []vrt.Ref{{Node: 1}, {Node: 2}, {Node: 4}, {Node: -1, Const: 3}}}, {Name: "NewFoo", Kind: vrt.KFunc}, {Name: "NewN", Kind: vrt.KFunc}, {Name: "unused", Kind: vrt.KArg}, {Name: "NewBar", Kind: vrt.KFunc}}, Result: []vrt.Ref{{Node: 0}}, ArgIDs: make([][]int, 5)}\n'
                         '\tvrt.Reset()\n\tres := Inject()\n\tvrt.Check(spec, vrt.Outcome{Result: []int{res.ID}, CleanupNil: true})\n}\n'),
    }
    extra = {'foo': {'foo.go': 'package foo\n\ntype Config struct{ N int }\n'}, 'bar': {'bar.go': 'package bar\n\ntype Settings struct{ Name string }\n'}}
    specs.append(RawSpec(files, 'packages foo and bar first mentioned by a struct literal and by a value expression, after locals named foo and bar exist', family='frontend', extra_pkgs=extra, compile_props=['C01', 'C14']))
    # --- shared sets, aliases, set in another package, three injectors
    files = {
        'providers.go': ('package {PKG}\n\nimport (\n\t"example.com/corpus/vrt"\n\t"example.com/corpus/{PKG}/dep"\n)\n\ntype App struct{ ID int }\ntype Job struct{ ID int }\n\n'
                         'func NewApp(d dep.DB, c dep.Cfg) App {\n\tid, _ := vrt.Call(0, false, d.ID, c.ID)\n\treturn App{ID: id}\n}\n\n'
                         'func NewJob(d dep.DB) (Job, func()) {\n\tid, _ := vrt.Call(3, false, d.ID)\n\treturn Job{ID: id}, vrt.CleanupFn(3)\n}\n'),
        'wire.go': ('//go:build wireinject\n// +build wireinject\n\npackage {PKG}\n\nimport (\n\t"github.com/google/wire"\n\t"example.com/corpus/{PKG}/dep"\n)\n\n'
                    'var Base = wire.NewSet(dep.Set)\nvar Alias = Base\n\n'
                    '// InjectApp builds an App.\nfunc InjectApp() (App, func()) {\n\tpanic(wire.Build(Alias, NewApp))\n}\n\n'
                    'func InjectJob() (Job, func()) {\n\twire.Build(Base, NewJob)\n\treturn Job{}, nil\n}\n\n'
                    'func InjectCfg(c dep.Cfg) App {\n\twire.Build(dep.NewDBPlain, NewApp)\n\treturn App{}\n}\n'),
        'zz_driver.go': ('//go:build !wireinject\n// +build !wireinject\n\npackage {PKG}\n\nimport "example.com/corpus/vrt"\n\nfunc VDrive() {\n'
                         '\tnodes := []vrt.Node{\n\t\t{Name: "NewApp", Kind: vrt.KFunc, Params: []vrt.Ref{{Node: 1}, {Node: 2}}},\n\t\t{Name: "dep.NewDB", Kind: vrt.KFunc, HasCleanup: true, Params: []vrt.Ref{{Node: 2}}},\n'
                         '\t\t{Name: "dep.NewCfg", Kind: vrt.KFunc},\n\t\t{Name: "NewJob", Kind: vrt.KFunc, HasCleanup: true, Params: []vrt.Ref{{Node: 1}}},\n\t\t{Name: "dep.NewDBPlain", Kind: vrt.KFunc},\n\t\t{Name: "c", Kind: vrt.KArg},\n\t}\n'
                         '\t{\n\t\tspec := &vrt.Spec{Nodes: nodes, Result: []vrt.Ref{{Node: 0}}, RetCleanup: true, ArgIDs: make([][]int, 6)}\n\t\tvrt.Reset()\n\t\tres, cl := InjectApp()\n\t\tvrt.Check(spec, vrt.Outcome{Result: []int{res.ID}, Cleanup: cl, CleanupNil: cl == nil})\n\t}\n'
                         '\t{\n\t\tspec := &vrt.Spec{Nodes: nodes, Result: []vrt.Ref{{Node: 3}}, RetCleanup: true, ArgIDs: make([][]int, 6)}\n\t\tvrt.Reset()\n\t\tres, cl := InjectJob()\n\t\tvrt.Check(spec, vrt.Outcome{Result: []int{res.ID}, Cleanup: cl, CleanupNil: cl == nil})\n\t}\n'
                         '\t{\n\t\tn2 := append([]vrt.Node(nil), nodes...)\n\t\tn2[0] = vrt.Node{Name: "NewApp", Kind: vrt.KFunc, Params: []vrt.Ref{{Node: 4}, {Node: 5}}}\n\t\tcid := vrt.ArgID("cfg")\n'
                         '\t\tspec := &vrt.Spec{Nodes: n2, Result: []vrt.Ref{{Node: 0}}, ArgIDs: [][]int{nil, nil, nil, nil, nil, {cid}}}\n\t\tvrt.Reset()\n\t\tres := InjectCfg(depCfg(cid))\n\t\tvrt.Check(spec, vrt.Outcome{Result: []int{res.ID}, CleanupNil: true})\n\t}\n}\n'),
        'helpers.go': 'package {PKG}\n\nimport "example.com/corpus/{PKG}/dep"\n\nfunc depCfg(id int) dep.Cfg { return dep.Cfg{ID: id} }\n',
    }
    extra = {'dep': {'dep.go': ('package dep\n\nimport (\n\t"example.com/corpus/vrt"\n\t"github.com/google/wire"\n)\n\ntype DB struct{ ID int }\ntype Cfg struct{ ID int }\n\n'
                                'func NewCfg() Cfg {\n\tid, _ := vrt.Call(2, false)\n\treturn Cfg{ID: id}\n}\n\nfunc NewDB(c Cfg) (DB, func()) {\n\tid, _ := vrt.Call(1, false, c.ID)\n\treturn DB{ID: id}, vrt.CleanupFn(1)\n}\n\n'
                                'func NewDBPlain() DB {\n\tid, _ := vrt.Call(4, false)\n\treturn DB{ID: id}\n}\n\nvar Inner = wire.NewSet(NewCfg)\nvar Set = wire.NewSet(Inner, NewDB)\n')}}
    specs.append(RawSpec(files, 'three injectors sharing named sets: alias of a set, set of another package nesting a set, Build in panic() and as statement', family='frontend', extra_pkgs=extra))
    # --- types of another package only in the signature / zero value; names colliding with import names
    files = {
        'providers.go': ('package {PKG}\n\nimport (\n\t"example.com/corpus/vrt"\n\t"example.com/corpus/{PKG}/dep"\n)\n\n'
                         'func NewDBErr(c dep.Dep) (dep.DB, error) {\n\tid, err := vrt.Call(0, true, c.ID)\n\tif err != nil {\n\t\treturn dep.DB{}, err\n\t}\n\treturn dep.DB{ID: id}, nil\n}\n\n'
                         'func NewPtr(c dep.Dep) (*dep.DB, func(), error) {\n\tid, err := vrt.Call(2, true, c.ID)\n\tif err != nil {\n\t\treturn nil, vrt.FailedCleanupFn(2), err\n\t}\n\treturn &dep.DB{ID: id}, vrt.CleanupFn(2), nil\n}\n'),
        'wire.go': ('//go:build wireinject\n// +build wireinject\n\npackage {PKG}\n\nimport (\n\t"github.com/google/wire"\n\t"example.com/corpus/{PKG}/dep"\n)\n\n'
                    'func InjectDB(dep dep.Dep) (dep.DB, error) {\n\tpanic(wire.Build(NewDBErr))\n}\n\n'
                    'func InjectPtr(vrt dep.Dep) (*dep.DB, func(), error) {\n\tpanic(wire.Build(NewPtr))\n}\n\n'
                    'func InjectArr() ([2]dep.DB, error) {\n\tpanic(wire.Build(dep.NewArr, dep.NewDep))\n}\n'),
        'zz_driver.go': ('//go:build !wireinject\n// +build !wireinject\n\npackage {PKG}\n\nimport (\n\t"example.com/corpus/vrt"\n\t"example.com/corpus/{PKG}/dep"\n)\n\nfunc VDrive() {\n'
                         '\tfor round := 0; round < 2; round++ {\n\t\tvrt.Round = round\n'
                         '\t\t{\n\t\t\tcid := vrt.ArgID("c")\n\t\t\tspec := &vrt.Spec{RetErr: true, Nodes: []vrt.Node{{Name: "NewDBErr", Kind: vrt.KFunc, HasErr: true, Params: []vrt.Ref{{Node: 1}}}, {Name: "dep", Kind: vrt.KArg}}, Result: []vrt.Ref{{Node: 0}}, ArgIDs: [][]int{nil, {cid}}}\n'
                         '\t\t\tvrt.Reset()\n\t\t\tres, err := InjectDB(dep.Dep{ID: cid})\n\t\t\tvrt.Check(spec, vrt.Outcome{Result: []int{res.ID}, Err: err, CleanupNil: true})\n\t\t}\n'
                         '\t\t{\n\t\t\tcid := vrt.ArgID("c2")\n\t\t\tspec := &vrt.Spec{RetErr: true, RetCleanup: true, Nodes: []vrt.Node{{Name: "unused", Kind: vrt.KValue}, {Name: "vrt", Kind: vrt.KArg}, {Name: "NewPtr", Kind: vrt.KFunc, HasErr: true, HasCleanup: true, Params: []vrt.Ref{{Node: 1}}}}, Result: []vrt.Ref{{Node: 2}}, ArgIDs: [][]int{nil, {cid}, nil}}\n'
                         '\t\t\tvrt.Reset()\n\t\t\tres, cl, err := InjectPtr(dep.Dep{ID: cid})\n\t\t\trid := 0\n\t\t\tif res != nil {\n\t\t\t\trid = res.ID\n\t\t\t}\n\t\t\tvrt.Check(spec, vrt.Outcome{Result: []int{rid}, Err: err, Cleanup: cl, CleanupNil: cl == nil})\n\t\t}\n'
                         '\t\t{\n\t\t\tspec := &vrt.Spec{RetErr: true, Nodes: []vrt.Node{{Name: "dep.NewArr", Kind: vrt.KFunc, HasErr: true, Params: []vrt.Ref{{Node: 1}}}, {Name: "dep.NewDep", Kind: vrt.KFunc}}, Result: []vrt.Ref{{Node: 0, Comp: 0}, {Node: 0, Comp: 1}}, ArgIDs: make([][]int, 2)}\n'
                         '\t\t\tvrt.Reset()\n\t\t\tres, err := InjectArr()\n\t\t\tvrt.Check(spec, vrt.Outcome{Result: []int{res[0].ID, res[1].ID}, Err: err, CleanupNil: true})\n\t\t}\n\t}\n}\n'),
    }
    extra = {'dep': {'dep.go': ('package dep\n\nimport "example.com/corpus/vrt"\n\ntype DB struct{ ID int }\ntype Dep struct{ ID int }\n\nfunc NewDep() Dep {\n\tid, _ := vrt.Call(1, false)\n\treturn Dep{ID: id}\n}\n\n'
                                'func NewArr(d Dep) ([2]DB, error) {\n\tid, err := vrt.Call(0, true, d.ID)\n\tif err != nil {\n\t\treturn [2]DB{}, err\n\t}\n\treturn [2]DB{{ID: id}, {ID: id + 1}}, nil\n}\n')}}
    specs.append(RawSpec(files, 'types of another package only in signatures and zero values (struct, pointer, array results with fallible providers); parameters named like the imported packages (dep, vrt)', family='frontend', extra_pkgs=extra))
    # --- injectors spread over several files, the later file with several injectors and declarations of its own
    files = {
        'providers.go': ('package {PKG}\n\nimport "example.com/corpus/vrt"\n\ntype A struct{ ID int }\ntype B struct{ ID int }\n\n'
                         'func NewA() A {\n\tid, _ := vrt.Call(1, false)\n\treturn A{ID: id}\n}\n\nfunc NewB(a A) B {\n\tid, _ := vrt.Call(0, false, a.ID)\n\treturn B{ID: id}\n}\n'),
        'a_wire.go': ('//go:build wireinject\n// +build wireinject\n\npackage {PKG}\n\nimport "github.com/google/wire"\n\nvar ASet = wire.NewSet(NewA)\n\nfunc helperA() int { return 1 }\n\n'
                      'func InjectA() A {\n\tpanic(wire.Build(ASet))\n}\n'),
        'b_wire.go': ('//go:build wireinject\n// +build wireinject\n\npackage {PKG}\n\nimport "github.com/google/wire"\n\nvar BSet = wire.NewSet(ASet, NewB)\n\nfunc helperB() int { return 2 }\n\n'
                      'func InjectB() B {\n\tpanic(wire.Build(BSet))\n}\n\nfunc InjectB2() B {\n\tpanic(wire.Build(NewA, NewB))\n}\n\nfunc InjectB3() B {\n\tpanic(wire.Build(BSet))\n}\n'),
        'c_wire.go': ('//go:build wireinject\n// +build wireinject\n\npackage {PKG}\n\nimport "github.com/google/wire"\n\nfunc helperC() int { return 3 }\n\n'
                      'func InjectC() A {\n\tpanic(wire.Build(NewA))\n}\n\nfunc InjectC2() A {\n\tpanic(wire.Build(ASet))\n}\n'),
        'zz_driver.go': ('//go:build !wireinject\n// +build !wireinject\n\npackage {PKG}\n\nimport "example.com/corpus/vrt"\n\nfunc VDrive() {\n'
                         '\tvrt.A("C15", helperA()+helperB()+helperC() == 6, "helper declarations of every injector file are copied once")\n'
                         '\tfor which := 0; which < 3; which++ {\n\t\tspec := &vrt.Spec{Nodes: []vrt.Node{{Name: "NewB", Kind: vrt.KFunc, Params: []vrt.Ref{{Node: 1}}}, {Name: "NewA", Kind: vrt.KFunc}}, Result: []vrt.Ref{{Node: 0}}, ArgIDs: make([][]int, 2)}\n'
                         '\t\tvrt.Reset()\n\t\tvar res B\n\t\tswitch which {\n\t\tcase 0:\n\t\t\tres = InjectB()\n\t\tcase 1:\n\t\t\tres = InjectB2()\n\t\tdefault:\n\t\t\tres = InjectB3()\n\t\t}\n'
                         '\t\tvrt.Check(spec, vrt.Outcome{Result: []int{res.ID}, CleanupNil: true})\n\t}\n'
                         '\tfor which := 0; which < 3; which++ {\n\t\tspec := &vrt.Spec{Nodes: []vrt.Node{{Name: "NewB", Kind: vrt.KFunc, Params: []vrt.Ref{{Node: 1}}}, {Name: "NewA", Kind: vrt.KFunc}}, Result: []vrt.Ref{{Node: 1}}, ArgIDs: make([][]int, 2)}\n'
                         '\t\tvrt.Reset()\n\t\tvar res A\n\t\tswitch which {\n\t\tcase 0:\n\t\t\tres = InjectA()\n\t\tcase 1:\n\t\t\tres = InjectC()\n\t\tdefault:\n\t\t\tres = InjectC2()\n\t\t}\n'
                         '\t\tvrt.Check(spec, vrt.Outcome{Result: []int{res.ID}, CleanupNil: true})\n\t}\n}\n'),
    }
    specs.append(RawSpec(files, 'injectors in three files (1, 3 and 2 injectors), each file with a set variable / helper of its own', family='frontend', compile_props=['C01', 'C15']))
    # --- imported packages whose names collide with the names Wire invents (err, err2, cleanup2), package-level err / cleanup
    def depsrc(pkgname, node):
        return ('package %s\n\nimport "example.com/corpus/vrt"\n\ntype T%d struct{ ID int }\n\nfunc New(ds ...int) (T%d, func(), error) {\n\tid, err := vrt.Call(%d, true, ds...)\n\tif err != nil {\n\t\treturn T%d{}, vrt.FailedCleanupFn(%d), err\n\t}\n\treturn T%d{ID: id}, vrt.CleanupFn(%d), nil\n}\n'
                % (pkgname, node, node, node, node, node, node, node))
    files = {
        'providers.go': ('package {PKG}\n\nimport (\n\t"example.com/corpus/vrt"\n\tcl "example.com/corpus/{PKG}/cleanup2"\n\te2 "example.com/corpus/{PKG}/err2"\n)\n\nvar err error = &vrt.Err{ID: 99}\nvar cleanup = func() { panic("user cleanup called") }\nvar _ = []interface{}{err, cleanup}\n\ntype App struct{ ID int }\n\n'
                         'func NewSink(a e2.T1) (cl.T2, func(), error) {\n\treturn cl.New(a.ID)\n}\n\nfunc NewApp(a e2.T1, b cl.T2) (App, error) {\n\tid, err := vrt.Call(0, true, a.ID, b.ID)\n\tif err != nil {\n\t\treturn App{}, err\n\t}\n\treturn App{ID: id}, nil\n}\n\nfunc NewT1() (e2.T1, func(), error) { return e2.New() }\n'),
        'wire.go': ('//go:build wireinject\n// +build wireinject\n\npackage {PKG}\n\nimport "github.com/google/wire"\n\nfunc Inject() (App, func(), error) {\n\tpanic(wire.Build(NewT1, NewSink, NewApp))\n}\n'),
        'zz_driver.go': ('//go:build !wireinject\n// +build !wireinject\n\npackage {PKG}\n\nimport "example.com/corpus/vrt"\n\nfunc VDrive() {\n\tfor round := 0; round < 2; round++ {\n\t\tvrt.Round = round\n'
                         '\t\tspec := &vrt.Spec{RetErr: true, RetCleanup: true, Nodes: []vrt.Node{{Name: "NewApp", Kind: vrt.KFunc, HasErr: true, Params: []vrt.Ref{{Node: 1}, {Node: 2}}}, {Name: "err2.New", Kind: vrt.KFunc, HasErr: true, HasCleanup: true}, {Name: "cleanup2.New", Kind: vrt.KFunc, HasErr: true, HasCleanup: true, Params: []vrt.Ref{{Node: 1}}}}, Result: []vrt.Ref{{Node: 0}}, ArgIDs: make([][]int, 3)}\n'
                         '\t\tvrt.Reset()\n\t\tres, c, e := Inject()\n\t\tvrt.Check(spec, vrt.Outcome{Result: []int{res.ID}, Err: e, Cleanup: c, CleanupNil: c == nil})\n\t}\n}\n'),
    }
    extra = {'err2': {'err2.go': depsrc('err2', 1)}, 'cleanup2': {'cleanup2.go': depsrc('cleanup2', 2)}}
    specs.append(RawSpec(files, 'providers returning types of packages named err2 and cleanup2, package-level err and cleanup in the injector package', family='frontend', extra_pkgs=extra, compile_props=['C01', 'C14'], naming='adversarial'))
    files = dict(files)
    files['wire.go'] = ('//go:build wireinject\n// +build wireinject\n\npackage {PKG}\n\nimport (\n\t"github.com/google/wire"\n\te2 "example.com/corpus/{PKG}/err2"\n)\n\n'
                        'func InjectDirect() (e2.TB, func(), error) {\n\tpanic(wire.Build(e2.New, e2.NewB, wire.Value([]int{1})))\n}\n')
    files['providers.go'] = ('package {PKG}\n\nimport "example.com/corpus/vrt"\n\nvar err error = &vrt.Err{ID: 99}\nvar cleanup = func() { panic("user cleanup called") }\nvar _ = []interface{}{err, cleanup}\n')
    files['zz_driver.go'] = ('//go:build !wireinject\n// +build !wireinject\n\npackage {PKG}\n\nimport "example.com/corpus/vrt"\n\nfunc VDrive() {\n\tfor round := 0; round < 2; round++ {\n\t\tvrt.Round = round\n'
                             '\t\tspec := &vrt.Spec{RetErr: true, RetCleanup: true, Nodes: []vrt.Node{{Name: "err2.NewB", Kind: vrt.KFunc, HasErr: true, Params: []vrt.Ref{{Node: 1}}}, {Name: "err2.New", Kind: vrt.KFunc, HasErr: true, HasCleanup: true, Params: []vrt.Ref{{Node: -1, Const: 1}}}}, Result: []vrt.Ref{{Node: 0}}, ArgIDs: make([][]int, 2)}\n'
                             '\t\tvrt.Reset()\n\t\tres, c, e := InjectDirect()\n\t\tvrt.Check(spec, vrt.Outcome{Result: []int{res.ID}, Err: e, Cleanup: c, CleanupNil: c == nil})\n\t}\n}\n')
    extra2 = {'err2': {'err2.go': depsrc('err2', 1) + '\ntype TB struct{ ID int }\n\nfunc NewB(a T1) (TB, error) {\n\tid, err := vrt.Call(0, true, a.ID)\n\tif err != nil {\n\t\treturn TB{}, err\n\t}\n\treturn TB{ID: id}, nil\n}\n'}}
    specs.append(RawSpec(files, 'providers called directly from a package named err2 (first imported by this injector, referenced twice), package-level err and cleanup', family='frontend', extra_pkgs=extra2, compile_props=['C01', 'C14'], naming='adversarial'))
    # --- blank imports of the injector file must be carried over; the wire package dot-imported
    files = {
        'providers.go': ('package {PKG}\n\nimport (\n\t"example.com/corpus/vrt"\n\t"example.com/corpus/{PKG}/reg"\n)\n\ntype A struct{ ID int }\ntype I interface{ VID() int }\n\nfunc (a *A) VID() int { return a.ID }\n\n'
                         'func NewA() *A {\n\tid, _ := vrt.Call(1, false, reg.Count())\n\treturn &A{ID: id}\n}\n\ntype B struct{ ID int }\n\nfunc NewB(i I) B {\n\tid, _ := vrt.Call(0, false, i.VID())\n\treturn B{ID: id}\n}\n'),
        'wire.go': ('//go:build wireinject\n// +build wireinject\n\npackage {PKG}\n\nimport (\n\t. "github.com/google/wire"\n\n\t_ "example.com/corpus/{PKG}/side1"\n\t_ "example.com/corpus/{PKG}/side2"\n)\n\n'
                    'var Set = NewSet(NewA, Bind(new(I), new(*A)))\n\nfunc Inject() B {\n\tpanic(Build(Set, NewB))\n}\n'),
        'zz_driver.go': ('//go:build !wireinject\n// +build !wireinject\n\npackage {PKG}\n\nimport (\n\t"example.com/corpus/vrt"\n\t"example.com/corpus/{PKG}/reg"\n)\n\nfunc VDrive() {\n'
                         '\tvrt.A("C01,C15", reg.Count() == 2, "blank imports of the injector file are carried over to the generated file (their side effects happen)")\n'
                         '\tspec := &vrt.Spec{Nodes: []vrt.Node{{Name: "NewB", Kind: vrt.KFunc, Params: []vrt.Ref{{Node: 1}}}, {Name: "NewA", Kind: vrt.KFunc, Params: []vrt.Ref{{Node: -1, Const: 2}}}}, Result: []vrt.Ref{{Node: 0}}, ArgIDs: make([][]int, 2)}\n'
                         '\tvrt.Reset()\n\tres := Inject()\n\tvrt.Check(spec, vrt.Outcome{Result: []int{res.ID}, CleanupNil: true})\n}\n'),
    }
    extra = {'reg': {'reg.go': 'package reg\n\nvar n int\n\nfunc Register() { n++ }\n\nfunc Count() int { return n }\n'},
             'side1': {'side1.go': 'package side1\n\nimport "example.com/corpus/{PKG}/reg"\n\nfunc init() { reg.Register() }\n'},
             'side2': {'side2.go': 'package side2\n\nimport "example.com/corpus/{PKG}/reg"\n\nfunc init() { reg.Register() }\n'}}
    specs.append(RawSpec(files, 'dot-imported wire package (Build, NewSet, Bind) and two blank imports in the injector file', family='frontend', extra_pkgs=extra, compile_props=['C01', 'C15']))
    # --- Bind under a dot import means what it means under a qualified import: new(C) binds C, new(*C) binds *C
    files = {
        'providers.go': ('package {PKG}\n\nimport "example.com/corpus/vrt"\n\ntype I interface{ VID() int }\ntype Val struct{ ID int }\ntype Ptr struct{ ID int }\n\nfunc (v Val) VID() int  { return v.ID }\nfunc (p *Ptr) VID() int { return p.ID }\n\n'
                         'func NewVal() Val {\n\tid, _ := vrt.Call(1, false)\n\treturn Val{ID: id}\n}\n\nfunc NewPtr() *Ptr {\n\tid, _ := vrt.Call(2, false)\n\treturn &Ptr{ID: id}\n}\n\n'
                         'func isVal(i I) bool { _, ok := i.(Val); return ok }\n'),
        'wire.go': ('//go:build wireinject\n// +build wireinject\n\npackage {PKG}\n\nimport . "github.com/google/wire"\n\n'
                    'func InjectVal() I {\n\tpanic(Build(NewVal, Bind(new(I), new(Val))))\n}\n\nfunc InjectPtr() I {\n\tpanic(Build(NewPtr, Bind(new(I), new(*Ptr))))\n}\n'),
        'zz_driver.go': ('//go:build !wireinject\n// +build !wireinject\n\npackage {PKG}\n\nimport "example.com/corpus/vrt"\n\nfunc VDrive() {\n'
                         '\tspec := &vrt.Spec{Nodes: []vrt.Node{{Name: "unused", Kind: vrt.KArg}, {Name: "NewVal", Kind: vrt.KFunc}, {Name: "NewPtr", Kind: vrt.KFunc}}, Result: []vrt.Ref{{Node: 1}}, ArgIDs: make([][]int, 3)}\n'
                         '\tvrt.Reset()\n\ta := InjectVal()\n\tvrt.A("C11", isVal(a), "under a dot import Bind(new(I), new(C)) binds the value type C")\n\tvrt.Check(spec, vrt.Outcome{Result: []int{a.VID()}, CleanupNil: true})\n'
                         '\tspec.Result = []vrt.Ref{{Node: 2}}\n\tvrt.Reset()\n\tb := InjectPtr()\n\tvrt.Check(spec, vrt.Outcome{Result: []int{b.VID()}, CleanupNil: true})\n}\n'),
    }
    specs.append(RawSpec(files, 'Bind under a dot import of wire: value-receiver type bound as a value, pointer-receiver type bound as a pointer', family='frontend'))
    specs[-1].extra_props = ['C11', 'C10']
    files = {
        'providers.go': 'package {PKG}\n\ntype I interface{ M() }\ntype P struct{}\n\nfunc (p *P) M() {}\n\nfunc NewP() P   { return P{} }\nfunc NewPP() *P { return &P{} }\n',
        'wire.go': '//go:build wireinject\n// +build wireinject\n\npackage {PKG}\n\nimport . "github.com/google/wire"\n\nfunc Inject() I {\n\tpanic(Build(NewP, NewPP, Bind(new(I), new(P))))\n}\n',
    }
    specs.append(RawSpec(files, 'must be rejected: under a dot import, Bind(new(I), new(P)) where only *P has the method', expect='reject', reject_props=['C11'], family='frontend'))
    # --- a copied function whose local is renamed (it collides with an import name of the generated file) and which
    #     selects a struct field spelled like that local
    files = {
        'providers.go': 'package {PKG}\n\ntype Cfg struct {\n\tstrings  []string\n\tstrings2 []string\n}\n\ntype Out struct{ S string }\n\nfunc NewOut() Out { return Out{S: joined(Cfg{strings: []string{"a", "b"}, strings2: []string{"x"}})} }\n',
        'wire.go': ('//go:build wireinject\n// +build wireinject\n\npackage {PKG}\n\nimport (\n\tstr "strings"\n\n\t"github.com/google/wire"\n)\n\nfunc Inject() Out {\n\tpanic(wire.Build(NewOut))\n}\n\n'
                    'func joined(cfg Cfg) string {\n\tstrings := str.ToUpper("sep")\n\t_ = strings\n\treturn str.Join(cfg.strings, ",") + "|" + str.Join(cfg.strings2, ",")\n}\n'),
        'zz_driver.go': ('//go:build !wireinject\n// +build !wireinject\n\npackage {PKG}\n\nimport "example.com/corpus/vrt"\n\nfunc VDrive() {\n'
                         '\tvrt.A("C15,C14", Inject().S == "a,b|x", "renaming a local of a copied function leaves equally spelled field selectors alone")\n\tvrt.Cover("zoo-checked")\n}\n'),
    }
    specs.append(RawSpec(files, 'copied function with a local named like an import of the generated file and struct fields spelled like that local and like its replacement', family='frontend', compile_props=['C01', 'C15', 'C14']))
    # --- a copied function whose local must be renamed while the first replacement name is taken by a parameter, a
    #     result or another local of the same function (D18)
    files = {
        'providers.go': 'package {PKG}\n\ntype Out struct{ S string }\n\nfunc NewOut() Out { return Out{S: viaParam([]string{"a", "b"}) + "/" + viaLocal() + "/" + viaResult()} }\n',
        'wire.go': ('//go:build wireinject\n// +build wireinject\n\npackage {PKG}\n\nimport (\n\tstr "strings"\n\n\t"github.com/google/wire"\n)\n\nfunc Inject() Out {\n\tpanic(wire.Build(NewOut))\n}\n\n'
                    'func viaParam(strings2 []string) string {\n\tstrings := str.ToUpper("x")\n\treturn strings + str.Join(strings2, ",")\n}\n\n'
                    'func viaLocal() string {\n\tstrings2 := "l"\n\tstrings := str.ToUpper("y")\n\treturn strings + strings2\n}\n\n'
                    'func viaResult() (strings2 string) {\n\tstrings := str.ToUpper("z")\n\tstrings2 = strings + "r"\n\treturn\n}\n'),
        'zz_driver.go': ('//go:build !wireinject\n// +build !wireinject\n\npackage {PKG}\n\nimport "example.com/corpus/vrt"\n\nfunc VDrive() {\n'
                         '\tvrt.A("C15,C14", Inject().S == "Xa,b/Yl/Zr", "a renamed local of a copied function does not capture a parameter, a result or another local")\n\tvrt.Cover("zoo-checked")\n}\n'),
    }
    specs.append(RawSpec(files, 'copied functions whose local is renamed while its first replacement name is a parameter / another local / a named result', family='frontend', compile_props=['C01', 'C15', 'C14']))
    # --- two injector files that use one identifier for two different packages; each has a copied helper calling into its package
    files = {
        'providers.go': 'package {PKG}\n\ntype Label struct{ S string }\ntype Secret struct{ S string }\n\nfunc NewLabel() Label   { return Label{S: encodeLabel("a")} }\nfunc NewSecret() Secret { return Secret{S: encodeSecret("a")} }\n',
        'label_wire.go': ('//go:build wireinject\n// +build wireinject\n\npackage {PKG}\n\nimport (\n\t"github.com/google/wire"\n\t"example.com/corpus/{PKG}/plain/codec"\n)\n\n'
                          'func InjectLabel() Label {\n\tpanic(wire.Build(NewLabel))\n}\n\nfunc encodeLabel(s string) string { return codec.Encode(s) }\n'),
        'secret_wire.go': ('//go:build wireinject\n// +build wireinject\n\npackage {PKG}\n\nimport (\n\t"github.com/google/wire"\n\t"example.com/corpus/{PKG}/secure/codec"\n)\n\n'
                           'func InjectSecret() Secret {\n\tpanic(wire.Build(NewSecret))\n}\n\nfunc encodeSecret(s string) string { return codec.Encode(s) }\n'),
        'zz_driver.go': ('//go:build !wireinject\n// +build !wireinject\n\npackage {PKG}\n\nimport "example.com/corpus/vrt"\n\nfunc VDrive() {\n'
                         '\tvrt.A("C15,C14", InjectLabel().S == "plain:a" && InjectSecret().S == "secure:a", "a copied declaration keeps calling the package its file imported under that name (two files use one identifier for two packages)")\n\tvrt.Cover("zoo-checked")\n}\n'),
    }
    extra = {'plain/codec': {'codec.go': 'package codec\n\nfunc Encode(s string) string { return "plain:" + s }\n'}, 'secure/codec': {'codec.go': 'package codec\n\nfunc Encode(s string) string { return "secure:" + s }\n'}}
    specs.append(RawSpec(files, 'two injector files using one identifier (codec) for two different packages, each with a copied helper calling into its package', family='frontend', extra_pkgs=extra, compile_props=['C01', 'C15', 'C14']))
    # --- struct provider with an embedded field, "*" and explicit names; injector with named results and blank / unnamed parameters
    files = {
        'providers.go': ('package {PKG}\n\nimport "example.com/corpus/vrt"\n\ntype Base struct{ ID int }\ntype Other struct{ ID int }\ntype S struct {\n\tBase\n\tO    Other\n\tskip int\n}\n\n'
                         'func NewBase() Base {\n\tid, _ := vrt.Call(1, false)\n\treturn Base{ID: id}\n}\n\nfunc NewR(s *S, s2 S) (R, error) {\n\tid, err := vrt.Call(0, true, s.Base.ID, s.O.ID, s.skip, s2.Base.ID, s2.O.ID)\n\tif err != nil {\n\t\treturn R{}, err\n\t}\n\treturn R{ID: id}, nil\n}\n\ntype R struct{ ID int }\n'),
        'wire.go': ('//go:build wireinject\n// +build wireinject\n\npackage {PKG}\n\nimport "github.com/google/wire"\n\n'
                    'func Inject(_ Other) (result R, err error) {\n\tpanic(wire.Build(NewBase, NewR, wire.Struct(new(S), "Base", "O")))\n}\n\nfunc Inject2(Other) (R, error) {\n\tpanic(wire.Build(NewBase, NewR, wire.Struct(new(S), "O", "Base")))\n}\n'),
        'zz_driver.go': ('//go:build !wireinject\n// +build !wireinject\n\npackage {PKG}\n\nimport "example.com/corpus/vrt"\n\nvar _ func(Other) (R, error) = Inject\n\nfunc VDrive() {\n\tfor round := 0; round < 2; round++ {\n\t\tvrt.Round = round\n\t\tfor which := 0; which < 2; which++ {\n'
                         '\t\t\toid := vrt.ArgID("o")\n\t\t\tspec := &vrt.Spec{RetErr: true, Nodes: []vrt.Node{{Name: "NewR", Kind: vrt.KFunc, HasErr: true, Params: []vrt.Ref{{Node: 1}, {Node: 2}, {Node: -1, Const: 0}, {Node: 1}, {Node: 2}}}, {Name: "NewBase", Kind: vrt.KFunc}, {Name: "o", Kind: vrt.KArg}}, Result: []vrt.Ref{{Node: 0}}, ArgIDs: [][]int{nil, nil, {oid}}}\n'
                         '\t\t\tvrt.Reset()\n\t\t\tvar res R\n\t\t\tvar err error\n\t\t\tif which == 0 {\n\t\t\t\tres, err = Inject(Other{ID: oid})\n\t\t\t} else {\n\t\t\t\tres, err = Inject2(Other{ID: oid})\n\t\t\t}\n\t\t\tvrt.Check(spec, vrt.Outcome{Result: []int{res.ID}, Err: err, CleanupNil: true})\n\t\t}\n\t}\n}\n'),
    }
    specs.append(RawSpec(files, 'struct provider with an embedded field consumed as *S and S (built twice), named results, blank and unnamed injector parameters', family='frontend'))
    # --- several provider-set variables declared in one var spec
    files = {
        'providers.go': ('package {PKG}\n\nimport (\n\t"example.com/corpus/vrt"\n\t"github.com/google/wire"\n)\n\ntype A struct{ ID int }\ntype B struct{ ID int }\ntype R struct{ ID int }\n\n'
                         'func NewA() A {\n\tid, _ := vrt.Call(1, false)\n\treturn A{ID: id}\n}\n\nfunc NewB() B {\n\tid, _ := vrt.Call(2, false)\n\treturn B{ID: id}\n}\n\n'
                         'func NewR(b B) R {\n\tid, _ := vrt.Call(0, false, b.ID)\n\treturn R{ID: id}\n}\n\nvar SetA, SetB = wire.NewSet(NewA), wire.NewSet(NewB)\n\nvar (\n\tSetC, SetD, SetE = wire.NewSet(NewA), wire.NewSet(NewA), wire.NewSet(NewB, NewR)\n)\n'),
        'wire.go': ('//go:build wireinject\n// +build wireinject\n\npackage {PKG}\n\nimport "github.com/google/wire"\n\n'
                    'func Inject() R {\n\tpanic(wire.Build(SetB, NewR))\n}\n\nfunc Inject2() R {\n\tpanic(wire.Build(SetE))\n}\n'),
        'zz_driver.go': ('//go:build !wireinject\n// +build !wireinject\n\npackage {PKG}\n\nimport "example.com/corpus/vrt"\n\nfunc VDrive() {\n'
                         '\tfor which := 0; which < 2; which++ {\n\t\tspec := &vrt.Spec{Nodes: []vrt.Node{{Name: "NewR", Kind: vrt.KFunc, Params: []vrt.Ref{{Node: 2}}}, {Name: "NewA", Kind: vrt.KFunc}, {Name: "NewB", Kind: vrt.KFunc}}, Result: []vrt.Ref{{Node: 0}}, ArgIDs: make([][]int, 3)}\n'
                         '\t\tvrt.Reset()\n\t\tvar res R\n\t\tif which == 0 {\n\t\t\tres = Inject()\n\t\t} else {\n\t\t\tres = Inject2()\n\t\t}\n\t\tvrt.Check(spec, vrt.Outcome{Result: []int{res.ID}, CleanupNil: true})\n\t}\n}\n'),
    }
    specs.append(RawSpec(files, 'provider-set variables declared several per var spec (second and third name used)', family='frontend'))
    # ... the sets of one var spec provide the same type through different providers: reading the wrong
    # initializer is silent (the program is still accepted and compiles)
    files = {
        'providers.go': ('package {PKG}\n\nimport (\n\t"example.com/corpus/vrt"\n\t"github.com/google/wire"\n)\n\ntype Clock struct{ ID int }\ntype App struct{ ID int }\n\n'
                         'func NewReal() Clock {\n\tid, _ := vrt.Call(1, false)\n\treturn Clock{ID: id}\n}\n\nfunc NewFake() Clock {\n\tid, _ := vrt.Call(2, false)\n\treturn Clock{ID: id}\n}\n\nfunc NewThird() Clock {\n\tid, _ := vrt.Call(3, false)\n\treturn Clock{ID: id}\n}\n\n'
                         'func NewApp(c Clock) App {\n\tid, _ := vrt.Call(0, false, c.ID)\n\treturn App{ID: id}\n}\n\nvar RealSet, FakeSet, ThirdSet = wire.NewSet(NewReal), wire.NewSet(NewFake), wire.NewSet(NewThird)\n'),
        'wire.go': ('//go:build wireinject\n// +build wireinject\n\npackage {PKG}\n\nimport "github.com/google/wire"\n\n'
                    'func Inject1() App {\n\tpanic(wire.Build(RealSet, NewApp))\n}\n\nfunc Inject2() App {\n\tpanic(wire.Build(FakeSet, NewApp))\n}\n\nfunc Inject3() App {\n\tpanic(wire.Build(ThirdSet, NewApp))\n}\n'),
        'zz_driver.go': ('//go:build !wireinject\n// +build !wireinject\n\npackage {PKG}\n\nimport "example.com/corpus/vrt"\n\nfunc VDrive() {\n'
                         '\tfor which := 1; which <= 3; which++ {\n\t\tspec := &vrt.Spec{Nodes: []vrt.Node{{Name: "NewApp", Kind: vrt.KFunc, Params: []vrt.Ref{{Node: which}}}, {Name: "NewReal", Kind: vrt.KFunc}, {Name: "NewFake", Kind: vrt.KFunc}, {Name: "NewThird", Kind: vrt.KFunc}}, Result: []vrt.Ref{{Node: 0}}, ArgIDs: make([][]int, 4)}\n'
                         '\t\tvrt.Reset()\n\t\tvar res App\n\t\tswitch which {\n\t\tcase 1:\n\t\t\tres = Inject1()\n\t\tcase 2:\n\t\t\tres = Inject2()\n\t\tdefault:\n\t\t\tres = Inject3()\n\t\t}\n\t\tvrt.Check(spec, vrt.Outcome{Result: []int{res.ID}, CleanupNil: true})\n\t}\n}\n'),
    }
    specs.append(RawSpec(files, 'three provider sets of one var spec providing one type through different providers (each injector must call its own set\'s provider)', family='frontend'))
    # --- C15 zoo: declarations in the injector file must be copied and behave like their originals
    zoo = (
        'type Pair[T any] struct{ A, B T }\n\nfunc (p Pair[T]) First() T { return p.A }\n\n'
        'func Map[T, U any](xs []T, f func(T) U) []U {\n\tvar out []U\n\tfor _, x := range xs {\n\t\tout = append(out, f(x))\n\t}\n\treturn out\n}\n\n'
        'func PairOf[A, B any](a A, b B) Pair2[A, B] { return Pair2[A, B]{a, b} }\n\ntype Pair2[A, B any] struct {\n\tL A\n\tR B\n}\n\n'
        'func Sum(xs ...int) int {\n\ttotal := 0\n\tfor _, x := range xs {\n\t\ttotal += x\n\t}\n\treturn total\n}\n\n'
        'func Classify(x int) int {\n\tswitch {\n\tcase x < 0:\n\t\treturn -1\n\tcase x == 0:\n\t\treturn 0\n\t}\n\treturn 1\n}\n\n'
        'func Loop(n int) int {\n\tacc := 0\nouter:\n\tfor i := 0; i < 3; i++ {\n\t\tfor j := 0; j < 3; j++ {\n\t\t\tif j == n {\n\t\t\t\tcontinue outer\n\t\t\t}\n\t\t\tif i == n {\n\t\t\t\tbreak outer\n\t\t\t}\n\t\t\tacc += i*3 + j\n\t\t}\n\t}\n\treturn acc\n}\n\n'
        'func Closure(x int) int {\n\tadd := func(y int) int { return x + y }\n\treturn add(2)\n}\n\n'
        'func Shadow(err int) int {\n\tcleanup := err + 1\n\t{\n\t\terr := cleanup * 2\n\t\tcleanup = err\n\t}\n\tdep := cleanup + 1\n\tvrt := dep * 2\n\treturn vrt + err\n}\n\n'
        'func Shadow2(x int) int {\n\tdep := x + 1\n\t{\n\t\tdep2 := 10\n\t\treturn dep + dep2\n\t}\n}\n\n'

        'func Shadow4(strings int) (str2 int) {\n\tfor str := 0; str < 2; str++ {\n\t\tstrings2 := strings + str\n\t\tstr2 += strings2\n\t}\n\treturn str2\n}\n\n'
        'var Table = map[string]int{"a": 1, "b": 2}\n\nconst K = 7\n\ntype Meth struct {\n\tV int `json:"v"`\n}\n\nfunc (m *Meth) Get() int { return m.V + K }\n\n'
        'func Upper(s string) string { return str.ToUpper(s) }\n\n'
        'func TypeSwitch(v interface{}) int {\n\tswitch t := v.(type) {\n\tcase int:\n\t\treturn t\n\tcase string:\n\t\treturn len(t)\n\tdefault:\n\t\treturn -1\n\t}\n}\n\n'
        'func Defer(x int) (r int) {\n\tdefer func() { r += x }()\n\treturn x * 2\n}\n\n'
        'func Select(x int) int {\n\tch := make(chan int, 1)\n\tch <- x\n\tselect {\n\tcase v := <-ch:\n\t\treturn v + 1\n\tdefault:\n\t\treturn 0\n\t}\n}\n\n'
        'func Goto(x int) int {\n\ti := 0\nagain:\n\tif i < x && i < 5 {\n\t\ti++\n\t\tgoto again\n\t}\n\treturn i\n}\n')
    def twin(src):
        out = src
        for name in ['Pair2', 'PairOf', 'Pair', 'Map', 'Sum', 'Classify', 'Loop', 'Closure', 'Shadow2', 'Shadow4', 'Shadow', 'Table', 'Meth', 'Upper', 'TypeSwitch', 'Defer', 'Select', 'Goto']:
            out = re.sub(r'\b%s\b' % name, name + 'Orig', out)
        out = re.sub(r'\bK\b', 'KOrig', out)
        return out
    files = {
        'providers.go': ('package {PKG}\n\nimport (\n\t"example.com/corpus/vrt"\n\t"example.com/corpus/{PKG}/dep"\n)\n\ntype App struct{ ID int }\n\n'
                         'func NewApp(d dep.DB) App {\n\tid, _ := vrt.Call(0, false, d.ID)\n\treturn App{ID: id}\n}\n'),
        'orig.go': 'package {PKG}\n\nimport str "strings"\n\n' + twin(zoo).replace('vrt := dep * 2\n\treturn vrt + err', 'vv := dep * 2\n\treturn vv + err'),
        'wire.go': ('//go:build wireinject\n// +build wireinject\n\npackage {PKG}\n\nimport (\n\tstr "strings"\n\n\t"github.com/google/wire"\n\t"example.com/corpus/{PKG}/dep"\n)\n\n'
                    'func Inject() App {\n\tpanic(wire.Build(dep.NewDB, NewApp))\n}\n\n' + zoo),
        'zz_driver.go': ('//go:build !wireinject\n// +build !wireinject\n\npackage {PKG}\n\nimport "example.com/corpus/vrt"\n\nfunc VDrive() {\n'
                         '\tx := vrt.ArgID("x") - 500\n\ty := vrt.ArgID("y") - 3\n'
                         '\tvrt.A("C15", Classify(x) == ClassifyOrig(x), "copied Classify behaves like the original")\n'
                         '\tvrt.A("C15", Loop(y) == LoopOrig(y), "copied Loop (labels) behaves like the original")\n'
                         '\tvrt.A("C15", Closure(x) == ClosureOrig(x), "copied Closure behaves like the original")\n'
                         '\tvrt.A("C15,C14", Shadow(x) == ShadowOrig(x), "copied Shadow (locals named err, cleanup, dep, vrt) behaves like the original")\n'
                         '\tvrt.A("C15,C14", Shadow2(x) == Shadow2Orig(x), "copied Shadow2 (a nested local spelled like the replacement name of a renamed outer local) behaves like the original")\n'

                         '\tvrt.A("C15,C14", Shadow4(x) == Shadow4Orig(x), "copied Shadow4 (parameter named like an imported package, named result, loop variable) behaves like the original")\n'
                         '\tvrt.A("C15", Sum(x, y, 3) == SumOrig(x, y, 3), "copied variadic Sum behaves like the original")\n'
                         '\tvrt.A("C15", Defer(x) == DeferOrig(x), "copied Defer behaves like the original")\n'
                         '\tvrt.A("C15", Select(x) == SelectOrig(x), "copied Select behaves like the original")\n'
                         '\tvrt.A("C15", Goto(y) == GotoOrig(y), "copied Goto behaves like the original")\n'
                         '\tvrt.A("C15", TypeSwitch(x) == TypeSwitchOrig(x) && TypeSwitch("ab") == TypeSwitchOrig("ab") && TypeSwitch(1.5) == -1, "copied TypeSwitch behaves like the original")\n'
                         '\tm, mo := &Meth{V: x}, &MethOrig{V: x}\n\tvrt.A("C15", m.Get() == mo.Get() && K == KOrig, "copied method and constant behave like the originals")\n'
                         '\tvrt.A("C15", Table["b"] == TableOrig["b"] && len(Table) == len(TableOrig), "copied variable has the original value")\n'
                         '\tp := Pair[int]{A: x, B: y}\n\tvrt.A("C15", p.First() == x, "copied generic type keeps its type parameters")\n'
                         '\tq := PairOf[int, string](x, "s")\n\tvrt.A("C15", q.L == x && q.R == "s", "copied generic function with two type parameters (index list) works")\n'
                         '\tds := Map([]int{x, y}, func(v int) int { return v + 1 })\n\tvrt.A("C15", len(ds) == 2 && ds[0] == x+1 && ds[1] == y+1, "copied generic function behaves like the original")\n'
                         '\tvrt.A("C15", Upper("ab") == "AB", "copied function using an aliased import works")\n'
                         '\tvrt.Reset()\n\tspec := &vrt.Spec{Nodes: []vrt.Node{{Name: "NewApp", Kind: vrt.KFunc, Params: []vrt.Ref{{Node: 1}}}, {Name: "dep.NewDB", Kind: vrt.KFunc}}, Result: []vrt.Ref{{Node: 0}}, ArgIDs: make([][]int, 2)}\n'
                         '\tres := Inject()\n\tvrt.Check(spec, vrt.Outcome{Result: []int{res.ID}, CleanupNil: true})\n\tvrt.Cover("zoo-checked")\n}\n'),
    }
    extra = {'dep': {'dep.go': 'package dep\n\nimport "example.com/corpus/vrt"\n\ntype DB struct{ ID int }\n\nfunc NewDB() DB {\n\tid, _ := vrt.Call(1, false)\n\treturn DB{ID: id}\n}\n'}}
    specs.append(RawSpec(files, 'declarations next to an injector are copied and behave like their originals (generics, labels, closures, shadowing, methods, aliased import, colliding local names)', family='frontend', extra_pkgs=extra, compile_props=['C01', 'C15', 'C14']))
    # same-scope collisions between a renamed local and other locals (a wrong rename here does not compile)
    zoo2 = ('func Shadow3(x int) int {\n\tdep := x\n\tdep2 := dep + 1\n\tdep3 := func(dep2_2 int) int { return dep2_2 + dep }\n\treturn dep2*2 + dep3(dep)\n}\n\n'
            'func Shadow5(dep, dep2 int) (dep3 int) {\n\tdep3 = dep*2 + dep2\n\treturn\n}\n')
    files2 = {
        'providers.go': files['providers.go'],
        'orig.go': 'package {PKG}\n\n' + zoo2.replace('Shadow3', 'Shadow3Orig').replace('Shadow5', 'Shadow5Orig'),
        'wire.go': ('//go:build wireinject\n// +build wireinject\n\npackage {PKG}\n\nimport (\n\t"github.com/google/wire"\n\t"example.com/corpus/{PKG}/dep"\n)\n\n'
                    'func Inject() App {\n\tpanic(wire.Build(dep.NewDB, NewApp))\n}\n\n' + zoo2),
        'zz_driver.go': ('//go:build !wireinject\n// +build !wireinject\n\npackage {PKG}\n\nimport "example.com/corpus/vrt"\n\nfunc VDrive() {\n\tx := vrt.ArgID("x") - 500\n\ty := vrt.ArgID("y") - 3\n'
                         '\tvrt.A("C15,C14", Shadow3(x) == Shadow3Orig(x), "copied Shadow3 (same-scope locals dep, dep2, closure parameter dep2_2) behaves like the original")\n'
                         '\tvrt.A("C15,C14", Shadow5(x, y) == Shadow5Orig(x, y), "copied Shadow5 (parameters dep, dep2 and named result dep3) behaves like the original")\n'
                         '\tvrt.Reset()\n\t_ = Inject()\n\tvrt.Cover("zoo-checked")\n}\n'),
    }
    specs.append(RawSpec(files2, 'copied declarations whose locals collide with each other after renaming (same scope)', family='frontend', extra_pkgs=extra, compile_props=['C01', 'C15', 'C14']))
    # --- two values of homonymous types from two packages in ONE injector: their package-level variables need distinct names (S137)
    files = {
        'providers.go': 'package {PKG}\n\nimport (\n\ta "example.com/corpus/{PKG}/a/opts"\n\tb "example.com/corpus/{PKG}/b/opts"\n)\n\ntype Svc struct{ N int }\n\nfunc NewSvc(x a.Options, y b.Options, px *a.Options) Svc { return Svc{N: x.N*100 + y.N*10 + px.N} }\n',
        'wire.go': ('//go:build wireinject\n// +build wireinject\n\npackage {PKG}\n\nimport (\n\t"github.com/google/wire"\n\ta "example.com/corpus/{PKG}/a/opts"\n\tb "example.com/corpus/{PKG}/b/opts"\n)\n\n'
                    'func Inject() Svc {\n\tpanic(wire.Build(wire.Value(a.Options{N: 3}), wire.Value(b.Options{N: 4}), wire.Value(&a.Options{N: 5}), NewSvc))\n}\n\n'
                    'func InjectTwice() Svc {\n\tpanic(wire.Build(wire.Value(b.Options{N: 7}), wire.Value(&a.Options{N: 8}), wire.Value(a.Options{N: 6}), NewSvc))\n}\n'),
        'zz_driver.go': ('//go:build !wireinject\n// +build !wireinject\n\npackage {PKG}\n\nimport "example.com/corpus/vrt"\n\nfunc VDrive() {\n'
                         '\tvrt.A("C10,C14,C13", Inject().N == 345 && InjectTwice().N == 678 && Inject().N == 345, "values of equally named types of two packages (and the pointer form) in one injector each keep their own package-level variable")\n\tvrt.Cover("zoo-checked")\n}\n'),
    }
    extra = {'a/opts': {'opts.go': 'package opts\n\ntype Options struct{ N int }\n'}, 'b/opts': {'opts.go': 'package opts\n\ntype Options struct{ N int }\n'}}
    specs.append(RawSpec(files, 'values of equally named types of two packages, value and pointer forms, in one injector and again in a second one', family='frontend', extra_pkgs=extra, compile_props=['C01', 'C10', 'C14']))
    # --- a value written in a package that has the injector package's NAME (another path), namesake variable in the injector package (S133);
    #     the values family has the same shape for C13, this one is run by C02 / C10 / C14 too
    files = {
        'providers.go': 'package {PKG}\n\nvar Endpoint = 1\n\nvar Label = "app"\n',
        'wire.go': ('//go:build wireinject\n// +build wireinject\n\npackage {PKG}\n\nimport (\n\t"github.com/google/wire"\n\tlib "example.com/corpus/{PKG}/lib"\n)\n\nfunc Inject() int {\n\tpanic(wire.Build(lib.Set))\n}\n\nfunc InjectLabel() string {\n\tpanic(wire.Build(lib.LabelSet))\n}\n'),
        'zz_driver.go': ('//go:build !wireinject\n// +build !wireinject\n\npackage {PKG}\n\nimport (\n\t"example.com/corpus/vrt"\n\tlib "example.com/corpus/{PKG}/lib"\n)\n\nfunc VDrive() {\n'
                         '\tvrt.A("C02,C13", Inject() == lib.Endpoint && Inject() != Endpoint && InjectLabel() == "lib" && Label == "app", "a value written in a package that has the injector package\'s name (another path) is that package\'s variable, not the namesake of the injector package")\n\tvrt.Cover("zoo-checked")\n}\n'),
    }
    specs.append(RawSpec(files, 'value identifiers written in a package whose name equals the injector package\'s name (different import path), namesake variables in both', family='frontend', compile_props=['C01', 'C02', 'C13'],
                         extra_pkgs={'lib': {'lib.go': 'package {PKG}\n\nimport (\n\t"example.com/corpus/vrt"\n\t"github.com/google/wire"\n)\n\nvar Endpoint = vrt.ArgID("base") + 7\n\nvar Label = "lib"\n\nvar Set = wire.NewSet(wire.Value(Endpoint))\n\nvar LabelSet = wire.NewSet(wire.Value(Label))\n'}}))
    return specs


def family_variadic():
    """F9: variadic providers in every result shape. Conn <- Store(conn, opts...) <- App(store); the variadic
    arguments come from a variadic injector parameter. Full trace oracle under all fault schedules."""
    specs = []
    combos = [((True, True), s_, a_) for s_ in FLAGS for a_ in FLAGS] + [(c_, (True, True), (True, False)) for c_ in FLAGS[:3]]
    for cf, sf, af in combos:
        def stub(k, name, params, args, flags, ret):
            he, hc = flags
            rets = [ret] + (['func()'] if hc else []) + (['error'] if he else [])
            out = ['func %s(%s) (%s) {' % (name, params, ', '.join(rets)), '\tvar args []int']
            out += ['\t' + a for a in args]
            out.append('\tid, err := vrt.Call(%d, %s, args...)' % (k, 'true' if he else 'false'))
            if he:
                out.append('\tif err != nil {\n\t\treturn %s{}%s, err\n\t}' % (ret, ', vrt.FailedCleanupFn(%d)' % k if hc else ''))
            else:
                out.append('\t_ = err')
            out.append('\treturn %s' % ', '.join(['%s{ID: id}' % ret] + (['vrt.CleanupFn(%d)' % k] if hc else []) + (['nil'] if he else [])))
            out.append('}\n')
            return '\n'.join(out)
        prov = ['package {PKG}\n', 'import "example.com/corpus/vrt"\n', 'type Opt struct{ ID int }\ntype Conn struct{ ID int }\ntype Store struct{ ID int }\ntype App struct{ ID int }\n',
                stub(2, 'NewConn', '', [], cf, 'Conn'),
                stub(1, 'NewStore', 'c Conn, opts ...Opt', ['args = append(args, c.ID)', 'for _, o := range opts {\n\t\targs = append(args, o.ID)\n\t}'], sf, 'Store'),
                stub(0, 'NewApp', 's Store', ['args = append(args, s.ID)'], af, 'App')]
        ne = cf[0] or sf[0] or af[0]
        nc = cf[1] or sf[1] or af[1]
        rets = ['App'] + (['func()'] if nc else []) + (['error'] if ne else [])
        sig = '(%s)' % ', '.join(rets) if len(rets) > 1 else rets[0]
        wf = '//go:build wireinject\n// +build wireinject\n\npackage {PKG}\n\nimport "github.com/google/wire"\n\nfunc Inject(opts ...Opt) %s {\n\tpanic(wire.Build(NewConn, NewStore, NewApp))\n}\n' % sig
        lhs = ['res'] + (['cleanup'] if nc else []) + (['err'] if ne else [])
        b = lambda x: str(x).lower()
        drv = ['//go:build !wireinject\n// +build !wireinject\n', 'package {PKG}\n', 'import "example.com/corpus/vrt"\n', 'var _ func(...Opt) %s = Inject\n' % sig, 'func VDrive() {',
               '\tspec := &vrt.Spec{RetErr: %s, RetCleanup: %s}' % (b(ne), b(nc)),
               '\tspec.Nodes = []vrt.Node{',
               '\t\t{Name: "NewApp", Kind: vrt.KFunc, HasErr: %s, HasCleanup: %s, Params: []vrt.Ref{{Node: 1}}},' % (b(af[0]), b(af[1])),
               '\t\t{Name: "NewStore", Kind: vrt.KFunc, HasErr: %s, HasCleanup: %s, Params: []vrt.Ref{{Node: 2}, {Node: 3, Comp: 0}, {Node: 3, Comp: 1}}},' % (b(sf[0]), b(sf[1])),
               '\t\t{Name: "NewConn", Kind: vrt.KFunc, HasErr: %s, HasCleanup: %s},' % (b(cf[0]), b(cf[1])),
               '\t\t{Name: "opts", Kind: vrt.KArg},', '\t}',
               '\tspec.Result = []vrt.Ref{{Node: 0}}',
               '\tfor round := 0; round < 2; round++ {', '\t\tvrt.Round = round\n\t\tvrt.Reset()',
               '\t\ta, b := vrt.ArgID("o0"), vrt.ArgID("o1")', '\t\tspec.ArgIDs = [][]int{nil, nil, nil, {a, b}}',
               '\t\t%s := Inject(Opt{ID: a}, Opt{ID: b})' % ', '.join(lhs),
               '\t\tout := vrt.Outcome{Result: []int{res.ID}}',
               ('\t\tout.Cleanup = cleanup\n\t\tout.CleanupNil = cleanup == nil' if nc else '\t\tout.CleanupNil = true'),
               ('\t\tout.Err = err' if ne else ''),
               '\t\tvrt.Check(spec, out)', '\t}\n}\n']
        files = {'providers.go': '\n'.join(prov), 'wire.go': wf, 'zz_driver.go': '\n'.join(drv)}
        specs.append(RawSpec(files, 'variadic provider (err=%s cleanup=%s) between Conn (err=%s cleanup=%s) and App (err=%s cleanup=%s), variadic injector' % (sf[0], sf[1], cf[0], cf[1], af[0], af[1]),
                             family='variadic', compile_props=['C01', 'C03']))
    return specs


def family_random(seed=0, count=60):
    """F9: seeded random well-formed programs mixing every node kind: function providers (value / pointer results,
    multi-component results, error / cleanup flags), struct providers consumed in value and pointer form with
    unselected and prevented fields, values, interface values, bindings to function / argument / value / field
    sources, fields of multi-component sources in value and pointer form, injector arguments; every node needed."""
    rnd = random.Random(1000 + seed)
    specs = []
    attempts = 0
    while len(specs) < count and attempts < count * 30:
        attempts += 1
        n = rnd.randint(3, 7)
        nodes = [None] * n
        # build from the leaves (high indices) towards the result (index 0): node i may consume nodes j > i
        consumers = {}   # node -> number of consumers (every node except 0 needs at least one)
        forms = {}       # node -> list of forms it can be consumed in
        ok = True
        for i in range(n - 1, -1, -1):
            avail = list(range(i + 1, n))
            leafish = [VALUE, ARG, FUNC, IVALUE]
            kinds = [FUNC, FUNC, FUNC, WSTRUCT, FIELD, BIND, VALUE, ARG, IVALUE] if avail else leafish
            if i == 0:
                kinds = [FUNC, FUNC, WSTRUCT, FIELD, BIND] if avail else [FUNC]
            kind = rnd.choice(kinds)
            if kind == FUNC:
                k = rnd.randint(0, min(3, len(avail))) if avail else 0
                if i == 0 and avail:
                    k = max(k, 1)
                deps = []
                for j in rnd.sample(avail, k):
                    deps.append((j, rnd.choice(forms[j])))
                he, hc = rnd.choice(FLAGS)
                ncomp = rnd.choice([1, 1, 1, 2, 3])
                nodes[i] = Node(FUNC, deps=deps, has_err=he, has_cleanup=hc, ptr=rnd.random() < 0.3, ncomp=ncomp)
                forms[i] = ['ptr'] if nodes[i].ptr else ['val']
            elif kind == WSTRUCT:
                k = rnd.randint(1, min(3, len(avail)))
                deps = [(j, rnd.choice(forms[j])) for j in rnd.sample(avail, k)]
                star = rnd.random() < 0.4
                nodes[i] = Node(WSTRUCT, deps=deps, star=star, extra_fields=0 if star else rnd.randint(0, 1), prevented=rnd.randint(0, 1))
                forms[i] = ['val', 'ptr']
            elif kind == FIELD:
                cands = [j for j in avail if nodes[j].kind in (FUNC, ARG, VALUE) and nodes[j].ncomp >= 2]
                if not cands:
                    ok = False
                    break
                par = rnd.choice(cands)
                nodes[i] = Node(FIELD, parent=par, fieldno=rnd.randrange(nodes[par].ncomp))
                forms[i] = ['val', 'ptr'] if nodes[par].ptr else ['val']
                # one field provider per (parent, field)
                if any(nodes[j] is not None and nodes[j].kind == FIELD and nodes[j].parent == par and nodes[j].fieldno == nodes[i].fieldno for j in avail):
                    ok = False
                    break
            elif kind == BIND:
                cands = [j for j in avail if ((nodes[j].kind in (FUNC, ARG, VALUE) and nodes[j].ncomp == 1) or nodes[j].kind == WSTRUCT) and not any(nodes[q] is not None and nodes[q].kind == BIND and nodes[q].target == j for q in avail)]
                if not cands:
                    ok = False
                    break
                tgt = rnd.choice(cands)
                nodes[i] = Node(BIND, target=tgt)
                forms[i] = ['val']
            elif kind == VALUE:
                nodes[i] = Node(VALUE, ptr=rnd.random() < 0.3, ncomp=rnd.choice([1, 1, 2, 3]))
                forms[i] = ['ptr'] if nodes[i].ptr else ['val']
            elif kind == ARG:
                nodes[i] = Node(ARG, ptr=rnd.random() < 0.3, ncomp=rnd.choice([1, 1, 2, 3]))
                nodes[i].blank = rnd.random() < 0.3
                forms[i] = ['ptr'] if nodes[i].ptr else ['val']
            else:
                nodes[i] = Node(IVALUE)
                forms[i] = ['val']
        if not ok:
            continue
        result_form = rnd.choice(forms[0])
        sp = Spec(nodes, (0, result_form), label='random seed=%d #%d kinds=%s' % (seed, len(specs), ''.join(nd.kind[0] for nd in nodes)), family='random')
        if sp.needed() != set(range(n)):
            continue
        # a field consumed in pointer form needs a pointer parent; a multi-component value cannot be a binding target (checked above)
        # two sources must not provide the same type: a multi-component source and a field of it provide different types: fine
        specs.append(sp)
    return specs


def family_random_reject(seed=0, count=45):
    """F10: every program of the random family turned ill-formed in one way: a needed source removed (C06), a source
    supplied twice through an extra inline set (C05), or a superfluous provider added (C08)."""
    base = family_random(seed + 77, count)
    rnd = random.Random(2000 + seed)
    specs = []
    for sp in base:
        how = rnd.choice(['omit', 'dup', 'unused'])
        cands = [k for k, n in enumerate(sp.nodes) if n.kind != ARG]
        if how == 'omit':
            if not cands:
                continue
            sp.omit = rnd.choice(cands)
            # dropping a binding's or field's item makes the interface / field type missing; all are "needed type without source"
            sp.reject_props = ['C06']
            if sp.nodes[sp.omit].kind in (FUNC, VALUE, WSTRUCT):
                sp.diag_must_contain = Namer(sp).tname(sp.omit)
            sp.label += ' MINUS the source of node %d' % sp.omit
        elif how == 'dup':
            cands = [k for k in cands if sp.nodes[k].kind in (FUNC, VALUE, WSTRUCT, IVALUE)]
            if not cands:
                continue
            sp.dup = rnd.choice(cands)
            sp.reject_props = ['C05']
            if sp.nodes[sp.dup].kind in (FUNC, VALUE, WSTRUCT):
                sp.diag_must_contain = Namer(sp).tname(sp.dup)
            sp.label += ' PLUS node %d a second time through an inline set' % sp.dup
        else:
            sp.nodes.append(Node(FUNC, has_cleanup=rnd.random() < 0.5))
            sp.reject_props = ['C08']
            sp.diag_must_contain = 'NewT%d' % (len(sp.nodes) - 1)
            sp.label += ' PLUS a provider nobody needs'
        sp.expect = 'reject'
        sp.family = 'random_reject'
        specs.append(sp)
    return specs
