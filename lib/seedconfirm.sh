#!/bin/bash
# seedconfirm.sh <ID> <worktree> <seedout dir>: confirms a seeded change: builds, baseline tests pass,
# the demo fails with the change and passes without it.
id=$1; wt=$2; out=$3
export GOFLAGS=-mod=mod GOPROXY=off GOSUMDB=off GOTOOLCHAIN=local
cd $wt || exit 3
git diff --quiet && { echo "$id: worktree has no change"; exit 3; }
go build ./... || { echo "$id: does not build"; exit 1; }
python3 /verif/lib/baseline_check.py $wt | tail -1
# demos that use a prebuilt binary expect it at $out/wire: rebuild it from the worktree in either state
[ -e $out/wire ] && go build -o $out/wire ./cmd/wire
( cd $out/demo && timeout 600 bash ./run.sh >/tmp/seedconfirm_${id}_with.log 2>&1 ); rc_with=$?
git diff > /tmp/seedconfirm_$id.patch; git apply -R /tmp/seedconfirm_$id.patch
[ -e $out/wire ] && go build -o $out/wire ./cmd/wire
( cd $out/demo && timeout 600 bash ./run.sh >/tmp/seedconfirm_${id}_without.log 2>&1 ); rc_without=$?
git apply /tmp/seedconfirm_$id.patch
[ -e $out/wire ] && go build -o $out/wire ./cmd/wire
echo "$id: demo rc with change=$rc_with, without=$rc_without"
