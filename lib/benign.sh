#!/bin/bash
# benign.sh <patch> [props...]: runs the quick checks against a scratch worktree carrying a behaviour-preserving
# refactoring; any VIOLATION is a false alarm, any exit 2 a check that a benign change breaks.
patch=$(readlink -f "$1"); shift
props=${@:-C01 C02 C03 C04 C05 C06 C07 C08 C09 C10 C11 C12 C13 C14 C15 C16 C17 C18 C19 C20}
wt=/tmp/benign_repo_$$
git -C /repo worktree add -q --detach $wt HEAD || exit 3
( cd $wt && git apply "$patch" ) || { echo "patch does not apply"; git -C /repo worktree remove --force $wt; exit 3; }
for p in $props; do
  out=$(cd /verif && VERIF_REPO=$wt ./check $p --tier quick 2>/dev/null); rc=$?
  echo "$p rc=$rc $(echo "$out" | grep -A1 '^VIOLATION\|^INCONCLUSIVE' | head -4 | tr '\n' ' ' | cut -c1-400)"
done
git -C /repo worktree remove --force $wt
rm -rf /verif/work/alt_$(basename $wt)
