#!/usr/bin/env python3
"""One-off stress of the translator validation: every replayable quick spec is run with many sample
models and all of them are replayed natively; prints every engine/native divergence."""
import sys, os, json
sys.path.insert(0, os.path.dirname(os.path.abspath(__file__)))
import props as P, runner as R
import subprocess
N = int(sys.argv[1]) if len(sys.argv) > 1 else 60
seen = set()
bad = 0
for pid in sorted(P.PROPS):
    for sp in P.PROPS[pid]['quick']:
        if sp.get('kind') == 'custom' or not sp.get('replayable'):
            continue
        key = (sp['entry'], json.dumps(sp['params'], sort_keys=True))
        if key in seen:
            continue
        seen.add(key)
        if sp.get('pre'):
            sp['pre'](pid, sp)
        exe = R.ensure_engine()
        out = os.path.join(R.workdir('validate'), 'r.json')
        cmd = [exe, '-repo', R.REPO, '-pkg', sp['pkg'], '-entry', sp['entry'], '-out', out, '-samples', str(N), '-deadline', '10m']
        for od in R.overlay_dirs(sp['overlay']):
            cmd += ['-overlay', od]
        for d, target in sp.get('overlay2') or []:
            cmd += ['-overlay', '%s=>%s' % (os.path.join(R.VERIF, d), target)]
        if sp['interp']:
            cmd += ['-interp', ','.join(sp['interp'])]
        inits = [p for p in ('go/token', 'go/ast', 'golang.org/x/tools/go/ast/astutil') if p in (sp['interp'] or []) and p not in sp['init']] + list(sp['init'])
        if inits:
            cmd += ['-init', ','.join(inits)]
        for k, v in sp['params'].items():
            cmd += ['-param', '%s=%d' % (k, v)]
        subprocess.run(cmd, env=R.GOENV, capture_output=True, text=True)
        res = json.load(open(out))
        nb = 0
        for s in res.get('samples') or []:
            rp = R.replay_native('validate', sp, s['model'])
            if rp['result'] != 'ok' or sorted(rp['covers']) != sorted(s.get('covers') or []):
                nb += 1
                if nb <= 3:
                    print('MISMATCH', sp['entry'], sp['params'], s['model'], 'engine covers', s.get('covers'), 'native', rp['result'], rp['covers'], flush=True)
        bad += nb
        print('%s %s: %d samples, %d mismatches' % (sp['entry'], sp['params'], len(res.get('samples') or []), nb), flush=True)
print('TOTAL mismatches', bad)
