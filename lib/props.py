"""Per-property check configuration (see DESIGN.md §6)."""
from runner import spec, WIRE_PKG, MAIN_PKG

MC = 'model_checking'


def solve(skeleton, K=2, missing=1, direct=0, named=1, **kw):
    """direct: 0 all items in one imported set; 1 each item direct or in the imported set; 2 direct or one of two imported sets.
    named=0: the imported sets are inline wire.NewSet(...) arguments (no variable name)."""
    return spec('H_solve', params=dict(skeleton=skeleton, K=K, missing=missing, direct=direct, named=named),
                label='H_solve[%d,K=%d,M=%d,direct=%d,named=%d]' % (skeleton, K, missing, direct, named), **kw)


SOLVE_FUNCS = 'solve, verifyArgsUsed, buildProviderMap, ProviderSet.For, ProvidedType.*, typeutil.Map (real, constant hasher)'

PROPS = {}

PROPS['C02'] = dict(
    level=MC,
    quick=[solve(142567), solve(1135167, K=1), solve(21367)],
    thorough=[solve(1412567), solve(1135167), solve(1215367), solve(2143567, K=1)],
    bounds_text='provider graphs of the listed skeletons (<=7 nodes, <=3 providers, arity<=K), every argument type / binding target / field parent / result type symbolic',
    outside='graphs beyond the skeletons; the front end building the ProviderSet (covered end-to-end only by side B)',
    assumptions=['types.Identical is an equivalence decided by type identity (modelled as equality of abstract ids)',
                 'typeutil.Map is executed from source with a constant hasher',
                 'fmt/strings.Builder text is opaque', 'parameter types of one provider are pairwise distinct (enforced by processFuncProvider, checked in C09)',
                 'chained bindings excluded'],
)


def bpm(overrides=1, diamond=0, **kw):
    return spec('H_bpm', params=dict(overrides=overrides, diamond=diamond), label='H_bpm[overrides=%d,diamond=%d]' % (overrides, diamond), **kw)


def acyclic(skeleton, K=2, **kw):
    return spec('H_acyclic', params=dict(skeleton=skeleton, K=K), label='H_acyclic[%d,K=%d]' % (skeleton, K), **kw)


def lattice(depth, **kw):
    return spec('H_lattice', params=dict(depth=depth), label='H_lattice[depth=%d]' % depth, **kw)


COMMON_ASSUME = ['types.Identical is an equivalence decided by type identity (modelled as equality of abstract ids)',
                 'typeutil.Map is executed from its source with a constant hasher (all keys in one bucket)',
                 'fmt / strings.Builder / token.FileSet.Position produce opaque text (diagnostic wording is not the subject)']

PROPS['C05'] = dict(
    level=MC,
    quick=[bpm(1), bpm(1, diamond=1)],
    thorough=[bpm(2), bpm(1), bpm(2, diamond=1)],
    covers={'H_bpm': ['rejected-set0']},
    bounds_text='nest of five provider sets (Build set, two siblings, one nested two deep, one shared) holding one source of each kind: 17 output slots (three of them interface bindings, in the Build set, in a sibling set and in the nested set); 1 (quick) or 2 (thorough) slots take any id of a 19-id universe; all bindings have symbolic concrete types; injector parameters named, blank or unnamed; "diamond" reaches one set along two paths',
    outside='identity of exotic Go types is types.Identical\'s (trusted); the front end that builds the sets',
    assumptions=COMMON_ASSUME + ['the two outputs of one item (T and *T) are distinct types', 'a binding does not bind an interface to itself (processBind, C11)'],
)

PROPS['C06'] = dict(
    level=MC,
    quick=[solve(14167, missing=2), solve(1135167, K=1, missing=2), solve(12567, missing=2)],
    thorough=[solve(1412567, missing=2), solve(1135167, missing=2), solve(2143567, K=1, missing=2)],
    covers={'H_solve': ['rejected-missing', 'accepted']},
    bounds_text='as C02; two type ids without any source may appear in every argument slot, as binding target, field parent or injector result; near misses (pointer output of a struct provider, pointer form of a field, interface vs implementation) are distinct ids',
    outside='wording of the diagnostic (text is opaque to the engine; side B confirms the type name is printed for its family)',
    assumptions=COMMON_ASSUME + ['chained bindings excluded'],
)

PROPS['C07'] = dict(
    level=MC,
    quick=[acyclic(111), acyclic(1313), acyclic(1351), lattice(12)],
    thorough=[acyclic(1111), acyclic(13156), acyclic(11111, K=1), acyclic(13513), lattice(14)],
    covers={'H_acyclic': ['cyclic', 'acyclic'], 'H_lattice': ['cyclic', 'acyclic']},
    bounds_text='every directed graph over the skeleton nodes (providers of arity<=K, field, binding alias, value), all edges symbolic incl. edges to an unprovided type; diamond lattices of depth 12/14 (2^12/2^14 paths) with one symbolic extra edge; step bounds as unwinding assertions',
    outside='graphs with more than 5 nodes other than the lattices; asymptotic growth is only bounded through the lattice step bounds',
    assumptions=COMMON_ASSUME + ['root order of the cycle search: TypeString of abstract types orders by id (all relabelings of a graph are in the symbolic input space)'],
)

PROPS['C08'] = dict(
    level=MC,
    quick=[solve(14167, direct=1), solve(12567, direct=1, K=1), solve(1357, direct=1)],
    thorough=[solve(142567, direct=1), solve(113567, direct=1), solve(214367, K=1, direct=1)],
    covers={'H_solve': ['rejected-unused', 'accepted']},
    bounds_text='as C02, with every item symbolically placed either directly in wire.Build or in an imported set',
    outside='graphs beyond the skeletons',
    assumptions=COMMON_ASSUME + ['chained bindings excluded'],
)

PROPS['C10'] = dict(
    level=MC,
    quick=[solve(14167, direct=1, missing=0), solve(113567, K=1, direct=1, missing=0), bpm(1), lattice(8)],
    thorough=[solve(142567, direct=1, missing=0), solve(113567, direct=1, missing=0), bpm(2), acyclic(1313)],
    covers={'H_solve': ['accepted'], 'H_bpm': ['accepted']},
    bounds_text='acceptance half: the biconditional oracles of H_solve / H_bpm / H_acyclic make a spurious rejection a violation; every item symbolically placed directly or in a nested set',
    outside='permutation of argument lists and regrouping into deeper nests beyond direct-vs-imported (H_regroup, side B); classification of real syntax by processExpr',
    assumptions=COMMON_ASSUME + ['chained bindings excluded (both orders are rejected, nothing is generated)'],
)

PROPS['C11'] = dict(
    level=MC,
    quick=[solve(15567, K=2), solve(151567, K=1, direct=1), bpm(1)],
    thorough=[solve(1155267, K=2), solve(151567, K=2, direct=1), bpm(2)],
    covers={'H_solve': ['binding-used', 'accepted'], 'H_bpm': ['accepted']},
    bounds_text='two bindings with symbolic concrete types among function/struct/value/field/argument sources, any number of consumers of I and C within the skeleton; binding placement direct vs nested symbolic',
    outside='Go method-set rules are types.Implements\' (H_bind covers processBind separately)',
    assumptions=COMMON_ASSUME + ['chained bindings excluded'],
)


def sig(entry, **params):
    return spec(entry, params=params, label='%s%s' % (entry, params or ''), interp=INTERP_AST)


INTERP_AST = ['go/types', 'golang.org/x/tools/go/types/typeutil', 'errors', 'go/token', 'go/ast']

PROPS['C09'] = dict(
    level=MC,
    quick=[sig('H_sig'), sig('H_structlit'), sig('H_inject', skeleton=1167), sig('H_inject', skeleton=11567, K=1)],
    thorough=[sig('H_sig'), sig('H_structlit'), sig('H_inject', skeleton=11167), sig('H_inject', skeleton=115167, K=1), sig('H_inject', skeleton=13167, K=2)],
    covers={'H_sig': ['sig-accepted', 'sig-rejected', 'provider-accepted', 'provider-dup-param'], 'H_structlit': ['structlit-accepted', 'structlit-dup'],
            'H_inject': ['inject-accepted', 'inject-rejected', 'emitted-error-branch']},
    bounds_text='result lists of length 0..4, each position one of {plain type (3 ids), error, func(), named func type, other func type}; 0..3 parameters / struct fields with symbolic type ids (4 ids); injector shapes {T, (T,error), (T,func()), (T,func(),error)} against providers with symbolic HasErr/HasCleanup on symbolic graphs of the listed skeletons',
    outside='wire.Struct field lists are covered by C12 (H_field); identity of exotic function types is types.Identical\'s',
    assumptions=COMMON_ASSUME + ['go/printer output of value expressions is stubbed in H_inject'],
)


def cli(entry, pkgs=2, **kw):
    return spec(entry, pkg=MAIN_PKG, overlay='harness/main', overlay2=[('harness/wire', WIRE_PKG)],
                interp=['errors', 'io', WIRE_PKG, 'go/types', 'golang.org/x/tools/go/types/typeutil', 'go/token', 'go/ast'], params=dict(pkgs=pkgs),
                label='%s[pkgs<=%d]' % (entry, pkgs), replayable=False, **kw)


CLI_ASSUME = ['os.Getwd, ioutil.ReadFile/WriteFile, os.Environ, flag.FlagSet.Args, wire.Generate / wire.Load and difflib are nondeterministic stubs constrained only by their contract (listed in harness/main/h_cli.go)',
              'Generate keeps Content nil for packages with analysis errors except the documented gofmt-failure case (both combinations are in the modelled space)',
              'difflib returns an empty diff exactly for equal inputs', 'log/fmt output is not the subject']

PROPS['C17'] = dict(
    level=MC,
    quick=[cli('H_cli_gen', 2), cli('H_cli_diff', 2), cli('H_cli_check', 2), cli('H_cli_show', 2)],
    thorough=[cli('H_cli_gen', 3), cli('H_cli_diff', 3), cli('H_cli_check', 3), cli('H_cli_show', 3)],
    covers={'H_cli_gen': ['gen-exit0', 'gen-exit1', 'gen-reached-generate'], 'H_cli_diff': ['diff-exit0', 'diff-exit1', 'diff-exit2'],
            'H_cli_check': ['check-exit0', 'check-exit1'], 'H_cli_show': ['show-exit0', 'show-exit1']},
    bounds_text='invocations over <=2 (quick) / <=3 (thorough) packages; per package symbolic: has errors, has content, write fails, prior file absent/equal/different; Getwd failure, header file given/readable, load failure, output prefix',
    outside='flag/subcommands plumbing and os.Exit in main(); real go/packages errors; the gen/diff counterexamples are not replayed natively (environment is stubbed)',
    assumptions=CLI_ASSUME,
)


# ---------------------------------------------------------------- side B (DESIGN.md §4)
import corpus as CP


def _families(names, seed, tier):
    specs = []
    for n in names:
        if n == 'chains2':
            specs += list(CP.family_chains(2))
        elif n == 'chains3':
            specs += list(CP.family_chains(3))
        elif n == 'chains4':
            import random
            allsp = list(CP.family_chains(4))
            small = [sp for sp in allsp if len(sp.nodes) <= 4]
            big = [sp for sp in allsp if len(sp.nodes) > 4]
            random.Random(seed).shuffle(big)
            specs += small + big[:1500]
        elif n == 'deep':
            specs += CP.family_deep(seed, nmax=5, extra=24 if tier == 'quick' else 200)
        elif n == 'kinds':
            specs += CP.family_kinds()
        elif n == 'naming':
            specs += CP.family_naming()
        elif n == 'grouping':
            specs += CP.family_grouping(seed)
        elif n == 'values':
            specs += CP.family_values()
        elif n == 'reject':
            specs += CP.family_reject()
        elif n == 'packages':
            specs += CP.family_packages()
        elif n == 'frontend':
            specs += CP.family_frontend()
        elif n == 'variadic':
            specs += CP.family_variadic()
        elif n == 'random_reject':
            specs += CP.family_random_reject(seed, 45 if tier == 'quick' else 300)
        elif n == 'random':
            specs += CP.family_random(seed, 60 if tier == 'quick' else 400)
    return specs


def sideb(names, label=None, determinism=False, check_agreement=False):
    def fn(pid, tier, seed, sp):
        import sideb as SB
        specs = _families(names, seed, tier)
        return SB.run_sideb(pid, specs, props_filter=pid, label=sp['label'], determinism=determinism, check_agreement=check_agreement)
    return dict(kind='custom', fn=fn, label=label or 'sideB[%s]' % '+'.join(names), entry='sideB', params={})


TV = 'translation_validation'
SIDEB_ASSUME = ['provider stubs log calls/cleanups and return fresh identities; which error-capable provider fails, with which error identity, and the injector argument identities are solver variables',
                'the oracle is the spec the corpus generator chose (DAG, kinds, flags), never Wire\'s output',
                'programs are enumerated from the stated grammar (that enumeration is not the solver\'s); per program the verdict over all provider behaviours is the solver\'s',
                'go/packages + go/ssa + the Go type checker are trusted']
SIDEB_TEXT = ('symbolic execution (same engine) of the injectors that the wire binary built from the current tree generates for a regenerated family of programs; '
              'the spec is the oracle; ')

PROPS['C03'] = dict(
    level=TV, technique='SSA symbolic execution of generated code + SMT (z3): solver-chosen fault schedules; program family enumerated',
    quick=[sideb(['chains3', 'deep', 'naming']), sig('H_inject', skeleton=1167)],
    thorough=[sideb(['chains4', 'deep', 'naming', 'kinds']), sig('H_inject', skeleton=11167)],
    bounds_text=SIDEB_TEXT + 'every DAG over <=3 function providers x all 4^n (plain / error / cleanup / cleanup+error) flag assignments, deeper chains/stars/random DAGs with 4..5 providers, adversarial naming; two consecutive injector calls with independent fault schedules (error identities 0..2 per provider per call)',
    outside='injectors with more than 5 calls; programs outside the grammar',
    assumptions=SIDEB_ASSUME,
    level_text='translation validation of the emitted injectors: for each program of the family the driver (two calls, cleanup invocation) is executed symbolically and the trace oracle is a set of validity queries over all fault schedules and argument identities; plus the rejection rule of gen.inject on symbolic graphs (side A)',
)
PROPS['C04'] = dict(PROPS['C03'], quick=[sideb(['chains3', 'deep'])], thorough=[sideb(['chains4', 'deep', 'kinds'])])


PROPS['C01'] = dict(
    level=TV, technique='SSA symbolic execution + SMT for zeroValue/emission (side A) and for the generated injectors (side B); compile step is the Go type checker',
    quick=[sideb(['chains2', 'kinds', 'naming', 'values']), sig('H_inject', skeleton=1167)],
    thorough=[sideb(['chains3', 'deep', 'kinds', 'naming', 'values', 'grouping']), sig('H_inject', skeleton=11167)],
    bounds_text=SIDEB_TEXT + 'families: all DAGs over <=2 (quick) / <=3 (thorough) function providers x flags, the kinds family (struct providers value/pointer/"*"/prevented fields, values, interface values, bindings to func/arg/value with value and pointer receivers, fields of arg/value/func structs in value and pointer form), adversarial naming, value expressions; each generated package must compile with wire_gen.go in place of the templates and the generated injector must be assignable to a variable of the template\'s exact signature',
    outside='"compiles" is the Go type checker\'s verdict on the enumerated family (a by-product, not a solver verdict); programs outside the grammar; gofmt',
    assumptions=SIDEB_ASSUME,
    level_text='translation validation: every program of the family is generated by the wire built from the tree, type-checked with the generated file standing in for the templates, its signature pinned by an assignment, and its injector executed symbolically under all fault schedules',
)

PROPS['C02']['quick'] = PROPS['C02']['quick'] + [sideb(['chains3', 'kinds'])]
PROPS['C02']['thorough'] = PROPS['C02']['thorough'] + [sideb(['chains4', 'deep', 'kinds', 'grouping'])]
PROPS['C11']['quick'] = PROPS['C11']['quick'] + [sideb(['kinds', 'reject'])]
PROPS['C11']['thorough'] = PROPS['C11']['thorough'] + [sideb(['kinds', 'reject', 'grouping'])]
PROPS['C10']['quick'] = PROPS['C10']['quick'] + [sideb(['grouping', 'kinds'])]
PROPS['C10']['thorough'] = PROPS['C10']['thorough'] + [sideb(['grouping', 'kinds', 'chains3', 'naming'])]
for _p in ('C05', 'C06', 'C08'):
    PROPS[_p]['quick'] = PROPS[_p]['quick'] + [sideb(['reject'])]
    PROPS[_p]['thorough'] = PROPS[_p]['thorough'] + [sideb(['reject'])]

PROPS['C12'] = dict(
    level=TV, technique='SSA symbolic execution of generated code + SMT; program family enumerated; front-end rejections confirmed end to end',
    quick=[sideb(['kinds', 'reject']), sig('H_structlit')],
    thorough=[sideb(['kinds', 'reject', 'naming']), sig('H_structlit')],
    bounds_text=SIDEB_TEXT + 'struct providers consumed as S and *S, explicit field lists and "*", prevented (wire:"-") and unselected fields must stay zero, fields of argument / value / function-result structs in value and pointer form incl. pointer-to-field aliasing; unknown and case-mismatched field names must be rejected',
    outside='embedded fields and unexported-field visibility (the compiler\'s); names beyond the family',
    assumptions=SIDEB_ASSUME,
)

PROPS['C13'] = dict(
    level=TV, technique='SSA symbolic execution of generated code + SMT (symbolic operands of the value expressions); expression list enumerated',
    quick=[sideb(['values', 'kinds'])],
    thorough=[sideb(['values', 'kinds'])],
    bounds_text=SIDEB_TEXT + '24 expression forms (identifiers, arithmetic, conversions, composite literals of struct/array/slice/map, address-of, dereference, selectors, indexing, type assertion, parentheses) over symbolic package variables, declared in the injector\'s package and in another package; two calls per injector; 11 forms that must be rejected (function, builtin and method calls, calls through function-typed variables and named function types, receive, nested call, interface-typed value, non-implementing interface value, function literal, unexported identifier of another package)',
    outside='expression forms beyond the list; evaluation order of Go initialisers',
    assumptions=SIDEB_ASSUME,
)

PROPS['C14'] = dict(
    level=TV, technique='SSA symbolic execution of generated code + SMT; adversarial naming schemes enumerated',
    quick=[sideb(['naming'])],
    thorough=[sideb(['naming', 'kinds'])],
    bounds_text=SIDEB_TEXT + 'adversarial naming: type names whose derived local names are err, cleanup, keywords (select, var, type, func, go, map) and predeclared identifiers (string, error, len, nil, true, int), numeric-suffix neighbours (Err2, Cleanup2), parameters named err / cleanup / v / _ / string / error, package-level variables err, cleanup, v, v2, arg, err2; the generated package must compile and satisfy the C02-C04 trace oracles (a captured identifier shows up as a wrong identity)',
    outside='names outside the pool; Unicode case folding',
    assumptions=SIDEB_ASSUME,
)


def gen_h(entry, **params):
    return spec(entry, params=params, label=entry, replayable=False)


PROPS['C17']['quick'] = PROPS['C17']['quick'] + [gen_h('H_generate'), gen_h('H_load')]
PROPS['C17']['thorough'] = PROPS['C17']['thorough'] + [gen_h('H_generate'), gen_h('H_load')]
PROPS['C17']['covers'].update({'H_generate': ['content', 'bad-dir', 'load-failed'], 'H_load': ['load-ok', 'load-error']})

PROPS['C18'] = dict(
    level=MC,
    quick=[cli('H_cli_gen', 2), cli('H_cli_diff', 2), gen_h('H_generate'), gen_h('H_load')],
    thorough=[cli('H_cli_gen', 3), cli('H_cli_diff', 3), gen_h('H_generate'), gen_h('H_load')],
    covers={'H_cli_gen': ['gen-exit0', 'gen-reached-generate'], 'H_cli_diff': ['diff-exit0', 'diff-exit1'], 'H_generate': ['content'], 'H_load': ['load-ok']},
    bounds_text='one step from an arbitrary prior state: the prior content of every output path is symbolic (absent / equal / different); gen performs no read of an output path and writes exactly Content; diff on an equal file returns 0; load() always passes -tags=wireinject first for every tags string of {"", "foo", "foo bar", "wireinject"}; every generated frame carries the !wireinject constraint. By induction over the history the post-state is a function of the current sources alone',
    outside='go/build\'s tag semantics (that a file constrained by !wireinject is excluded when the tag is set) and difflib are assumed, not encoded; histories are covered only through the one-step argument',
    assumptions=CLI_ASSUME + ['load, generateInjectors, copyNonInjectorDecls and format.Source are stubs in H_generate; packages.Load is a stub in H_load',
                              'go/build excludes files whose constraint is !wireinject when the wireinject tag is set'],
)


def wspec(entry, replayable=True, **params):
    return spec(entry, params=params, label='%s%s' % (entry, params or ''), replayable=replayable)


PROPS['C16'] = dict(
    level=MC,
    quick=[wspec('H_maporder', replayable=False, permute_maps=1, imports=3, anon=2, values=2), wspec('H_unvendor', len=16), wspec('H_iswire', len=12), gen_h('H_generate')],
    thorough=[wspec('H_maporder', replayable=False, permute_maps=1, imports=4, anon=2, values=2), wspec('H_unvendor', len=22), wspec('H_iswire', len=18), gen_h('H_generate')],
    covers={'H_maporder': ['framed'], 'H_unvendor': ['unvendor'], 'H_iswire': ['iswire'], 'H_generate': ['content']},
    bounds_text='gen.frame / nameInFileScope under every iteration order of the import, anonymous-import and value tables (<=3/2/2 entries quick, 4/2/2 thorough; the engine permutes map iteration by a solver-visible choice); qualifyImport / isWireImport for every import path of 16 (22) bytes over the alphabet {v,e,n,d,o,r,/,x}; Generate\'s framed content contains no absolute path',
    outside='NOT CLAIMED: independence of module vs GOPATH vs vendor resolution, checkout location, invocation directory/pattern and co-processed packages — that is go list / go/packages behaviour which cannot be encoded; only the un-vendoring of paths and the absence of absolute paths in the frame are covered',
    assumptions=COMMON_ASSUME + ['map iteration order is the only source of nondeterminism inside Wire (no time, randomness or environment reads in internal/wire besides go/packages)'],
)


INTERP_TYPES = ['go/types', 'golang.org/x/tools/go/types/typeutil', 'errors', 'go/token', 'go/ast', 'go/constant', 'sort', 'math/bits', 'sync', 'sync/atomic', 'golang.org/x/tools/go/ast/astutil']


def tspec(entry, **params):
    if entry.startswith('H_recog'):
        params = dict(params, real_typestring=1)
    # H_recog_expr replaces objectCache.varDecl by a stub, which a native replay cannot do
    return spec(entry, params=params, label='%s%s' % (entry, params or ''), interp=INTERP_TYPES, init=['go/types'], replayable=(entry not in ('H_recog_expr', 'H_load_vars')), **({} if not entry.startswith('H_recog') else {}))


PROPS['C20'] = dict(
    level=MC,
    quick=[tspec('H_zero'), tspec('H_recog_struct', maxform=6), tspec('H_recog_bind', maxform=3), tspec('H_recog_fieldsof', maxform=4), tspec('H_recog_expr')],
    thorough=[tspec('H_zero'), tspec('H_recog_struct'), tspec('H_recog_bind'), tspec('H_recog_fieldsof'), tspec('H_recog_expr'), sideb(['reject', 'values'])],
    covers={'H_zero': ['zero'], 'H_recog_struct': ['struct-accepted', 'struct-refused'], 'H_recog_bind': ['bind-accepted', 'bind-refused'],
            'H_recog_fieldsof': ['fieldsof-accepted', 'fieldsof-refused'], 'H_recog_expr': ['expr-accepted', 'expr-refused']},
    panic_props=['C20'],
    bounds_text='marker calls built from real go/ast nodes and real go/types objects (go/types\' own init is interpreted): first arguments written as new(T), new(pkg.T), &T{}, a pointer variable, (*T)(nil), (new(T)), pkg.Var, with T a named struct, pointer to struct, interface, named int, anonymous struct, instantiated-generic-like index expression; 0..3 arguments; field names as literals, "*", unknown names, constants, concatenations; wire.Bind with and without dot import; wire.Build arguments of every object kind (provider-set variable with any ValueSpec shape names<=2/values<=2, nil, true, function, constant, struct literal, other composite literal, calls, conversions, literals, unknown marker), parenthesised or not; zeroValue for every typed basic kind and every composite kind, named or not',
    outside='positions are opaque (that they lie inside the user\'s sources is not checked); crashes inside go/packages / go/types; expression forms beyond the listed ones',
    assumptions=['types.Info is built by the harness for each shape (Types, Uses); every shape is type-correct Go by construction of the table', 'objectCache.varDecl is a stub returning a declaration of symbolic shape',
                 'fmt / token.FileSet.Position text is opaque'],
)


def gather(skeleton, K=2, inputs=2):
    return spec('H_gather', pkg=MAIN_PKG, overlay='harness/main', overlay2=[('harness/wire', WIRE_PKG)],
                interp=['errors', WIRE_PKG, 'go/types', 'golang.org/x/tools/go/types/typeutil', 'go/token', 'go/ast'],
                params=dict(skeleton=skeleton, K=K, inputs=inputs), label='H_gather[%d,K=%d,inputs=%d]' % (skeleton, K, inputs))


def checkgen(skeleton, K=2, missing=1):
    return spec('H_checkgen', params=dict(skeleton=skeleton, K=K, missing=missing), interp=INTERP_TYPES, replayable=False,
                label='H_checkgen[%d,K=%d]' % (skeleton, K))


PROPS['C19'] = dict(
    level=MC,
    quick=[checkgen(1167), checkgen(11567, K=1), gather(1136), gather(13163, K=1), cli('H_cli_check', 2), cli('H_cli_show', 2)],
    thorough=[checkgen(11167), checkgen(115167, K=1), checkgen(13167), gather(11136), gather(113163), cli('H_cli_check', 3), cli('H_cli_show', 3)],
    covers={'H_checkgen': ['both-accept', 'both-reject'], 'H_gather': ['gathered', 'groups>=2'], 'H_cli_check': ['check-exit0', 'check-exit1']},
    bounds_text='Load and Generate run on the same symbolic provider graph (skeletons as C02, symbolic HasErr/HasCleanup, all four injector result shapes, one missing type): Load errs iff Generate errs; gather on acyclic graphs with symbolic edges over providers/fields/values split over an outer and a nested named set with 2 external input types: every output in exactly one group whose inputs are exactly the required external types',
    outside='the text layout of wire show; well-formedness of provider-set variables through the real parser (processExpr is covered by C20, the loader is stubbed)',
    assumptions=COMMON_ASSUME + ['load, findInjectorBuild, processNewSet (returns the harness\'s set), writeAST, copyNonInjectorDecls and format.Source are stubs in H_checkgen'],
)


def _gen_copyast(pid, sp):
    import subprocess, os
    from runner import ensure_engine, workdir, GOENV
    d = os.path.join(workdir(pid), 'gen')
    os.makedirs(d, exist_ok=True)
    sp['overlay'] = sp['overlay'][:-1] + [d]
    subprocess.run([ensure_engine(), '-gen-copyast', os.path.join(d, 'h_copyast_gen.go')], env=GOENV, check=True)


def copyast():
    import os
    from runner import VERIF
    sp = spec('H_copyast', overlay=['harness/wire', 'harness/copyast', os.path.join(VERIF, 'work', 'C15', 'gen')], interp=INTERP_TYPES, label='H_copyast')
    sp['pre'] = _gen_copyast
    return sp


PROPS['C15'] = dict(
    level=MC,
    quick=[copyast()],
    thorough=[copyast()],
    covers={'H_copyast': ['copied']},
    validate=2,
    bounds_text='one node of every go/ast node kind (enumerated from go/ast\'s type information on every run: 54 kinds with the Go toolchain of this image) with every scalar field (positions, tokens, strings, flags) symbolic and every child a leaf, in two variants (optional children present / nil); copyAST runs with the real astutil.Apply interpreted. One inductive step: if the children are copied correctly the node is; identifiers keep their identity',
    outside='rewritePkgRefs\' qualifier rewriting and capture-avoiding renaming, copyNonInjectorDecls\' selection and order, printing (comments/positions after gofmt) — not covered in this revision; ast.File / ast.Package never reach copyAST; Ident.Obj (resolver link) is not syntax',
    assumptions=['astutil.Apply is executed from its source; reflect.Indirect / FieldByName / Index / Interface are engine models', 'go/ast field comments mentioning nil mark optional children'],
)


# side-A string harnesses added to C12 / C14
PROPS['C12']['quick'] = PROPS['C12']['quick'] + [wspec('H_field', fields=2, len=2), tspec('H_recog_struct', maxform=6), tspec('H_recog_fieldsof', maxform=3)]
PROPS['C12']['thorough'] = PROPS['C12']['thorough'] + [wspec('H_field', fields=3, len=3), tspec('H_recog_struct'), tspec('H_recog_fieldsof')]
PROPS['C12']['covers'] = {'H_field': ['field-selected', 'field-refused'], 'H_recog_struct': ['struct-accepted'], 'H_recog_fieldsof': ['fieldsof-accepted']}
PROPS['C12']['bounds_text'] += '; side A: checkField / allFields / isPrevented for every field and request name of 2 (3) identifier bytes over 2 (3) fields with symbolic prevent tags; the recognisers on real go/ast + go/types shapes'
PROPS['C14']['quick'] = PROPS['C14']['quick'] + [wspec('H_names', len=2, taken=5), wspec('H_unvendor', len=12), wspec('H_maporder', replayable=False, permute_maps=1, imports=3, anon=2, values=2)]
PROPS['C14']['thorough'] = PROPS['C14']['thorough'] + [wspec('H_names', len=3, taken=6), wspec('H_unvendor', len=16)]
PROPS['C14']['covers'] = {'H_names': ['disambiguated']}
PROPS['C14']['bounds_text'] += '; side A: disambiguate / typeVariableName for every name of 2 (3) identifier bytes against a symbolic set of 5 (6) taken names containing the name itself, its numbered successor and arbitrary others, with a step budget as termination assertion'
PROPS['C11']['quick'] = PROPS['C11']['quick'] + [tspec('H_recog_bind', maxform=2)]
PROPS['C11']['thorough'] = PROPS['C11']['thorough'] + [tspec('H_recog_bind')]

PROPS['C02']['quick'] = PROPS['C02']['quick'][:-1] + [sideb(['chains3', 'kinds', 'packages'])]
PROPS['C02']['thorough'] = PROPS['C02']['thorough'][:-1] + [sideb(['chains4', 'deep', 'kinds', 'grouping', 'packages'])]
PROPS['C10']['quick'] = PROPS['C10']['quick'][:-1] + [sideb(['grouping', 'kinds', 'packages'])]

for _p, _fam in (('C01', ['frontend', 'packages']), ('C10', ['frontend']), ('C14', ['frontend']), ('C02', ['frontend'])):
    for _t in ('quick', 'thorough'):
        PROPS[_p][_t] = PROPS[_p][_t] + [sideb(_fam)]
PROPS['C15']['quick'] = PROPS['C15']['quick'] + [sideb(['frontend'])]
PROPS['C15']['thorough'] = PROPS['C15']['thorough'] + [sideb(['frontend', 'kinds'])]
PROPS['C15']['bounds_text'] += '; side B zoo: declarations next to an injector (generic types and functions incl. two type parameters, labels/goto, closures, defer, select, type switch, shadowing of err/cleanup, locals colliding with generated import names, methods, struct tags, variables, constants, aliased imports) are copied by the real wire binary, must compile, and each copied function equals its twin original for all values of its symbolic integer arguments'
PROPS['C15']['outside'] = 'declaration forms beyond the zoo; comments/positions after gofmt; ast.File / ast.Package never reach copyAST; Ident.Obj (resolver link) is not syntax'
PROPS['C16']['quick'] = PROPS['C16']['quick'] + [sideb(['kinds', 'naming', 'values', 'frontend', 'packages'], determinism=True)]
PROPS['C16']['thorough'] = PROPS['C16']['thorough'] + [sideb(['chains3', 'kinds', 'naming', 'values', 'frontend', 'packages', 'grouping'], determinism=True)]
PROPS['C16']['bounds_text'] += '; supplement (enumerated runs, not solver-decided): for the side-B corpus, a repeated run, every package generated alone, and a run in a copy of the module at another location started from a package directory with per-package relative patterns, and a run in GOPATH mode (GO111MODULE=off) with github.com/google/wire and two external provider modules resolved from a vendor directory, must give byte-identical files free of absolute paths'
PROPS['C16']['outside'] = 'beyond the runs of the supplement: other GOPATH / vendor layouts, co-processing with arbitrary other packages'

# skeletons added after the seeded changes S08 (inline sets) and S10 (binding to a field-provided type in the same set)
PROPS['C08']['quick'] = PROPS['C08']['quick'] + [solve(1367, direct=2, named=0), solve(1567, direct=2, named=0, K=1)]
PROPS['C08']['thorough'] = PROPS['C08']['thorough'] + [solve(11367, direct=2, named=0), solve(13567, direct=2, named=0, K=1), solve(11367, direct=2, named=1, K=1)]
PROPS['C10']['quick'] = PROPS['C10']['quick'] + [solve(15367, direct=1, missing=0), solve(15467, direct=2, missing=0, K=1, named=0)]
PROPS['C10']['thorough'] = PROPS['C10']['thorough'] + [solve(115367, direct=1, missing=0), solve(15467, direct=2, missing=0, named=0), solve(152367, direct=1, missing=0, K=1)]
PROPS['C11']['quick'] = PROPS['C11']['quick'] + [solve(15367, direct=1)]
PROPS['C11']['thorough'] = PROPS['C11']['thorough'] + [solve(15467, direct=2), solve(155367, direct=1, K=1)]

PROPS['C06']['quick'] = PROPS['C06']['quick'] + [tspec('H_recog_expr'), sideb(['frontend'])]
PROPS['C06']['thorough'] = PROPS['C06']['thorough'] + [tspec('H_recog_expr'), sideb(['frontend'])]
PROPS['C10']['quick'] = PROPS['C10']['quick'] + [tspec('H_recog_expr')]

PROPS['C09']['quick'] = PROPS['C09']['quick'] + [tspec('H_sig_real', real_typestring=1)]
PROPS['C09']['thorough'] = PROPS['C09']['thorough'] + [tspec('H_sig_real', real_typestring=1)]
PROPS['C09']['covers']['H_sig_real'] = ['dup', 'nodup']
PROPS['C09']['bounds_text'] += '; H_sig_real: 2..3 parameters / fields drawn from 14 real go/types types including identical-but-differently-spelled pairs (byte/uint8, rune/int32, []byte/[]uint8, func types differing in parameter names, any/interface{}) and similar-but-distinct ones, oracle types.Identical (go/types run from its own SSA)'


def cli_e2e():
    def fn(pid, tier, seed, sp):
        import cli_e2e as E
        return E.run_cli_e2e(pid, tier, seed, sp)
    return dict(kind='custom', fn=fn, label='cli_e2e', entry='cli_e2e', params={})


for _p in ('C17', 'C18'):
    for _t in ('quick', 'thorough'):
        PROPS[_p][_t] = PROPS[_p][_t] + [cli_e2e()]
    PROPS[_p]['bounds_text'] += '; supplement (enumerated runs of the real binary, not solver-decided): ~50 expectations on a three-package module (good / no injectors / failing): exit codes of gen, the default-command form, diff, check, show; file-system footprint; header and prefix; six histories (stale garbage, failed generation, other variant, deletion, hand edit, other tags) after which gen must leave the fresh-checkout file'

def _g(sp, covers):
    sp['covers'] = covers
    return sp


PROPS['C19']['quick'] = [x for x in PROPS['C19']['quick'] if not str(x.get('label', '')).startswith('H_gather')] + [
    _g(gather(11136, K=1), ['gathered', 'groups>=2', 'two-inline-sets']), _g(gather(1136), ['gathered', 'groups>=2']), _g(gather(111363, K=1, inputs=1), ['gathered', 'two-inline-sets'])]
PROPS['C19']['thorough'] = [x for x in PROPS['C19']['thorough'] if not str(x.get('label', '')).startswith('H_gather')] + [
    _g(gather(11136), ['gathered', 'groups>=2', 'two-inline-sets']), _g(gather(113163), ['gathered', 'groups>=2']), _g(gather(111363, K=2, inputs=2), ['gathered', 'two-inline-sets'])]
PROPS['C19']['covers']['H_gather'] = ['gathered']
PROPS['C19']['bounds_text'] += '; the outer set includes up to two inline (unnamed) sets of one package, each including a named set'


for _t in ('quick', 'thorough'):
    PROPS['C20'][_t] = PROPS['C20'][_t] + [tspec('H_recog_ivalue', maxform=3)]
    PROPS['C13'][_t] = PROPS['C13'][_t] + [tspec('H_recog_ivalue', maxform=3)]
PROPS['C20']['covers']['H_recog_ivalue'] = ['value-accepted', 'value-refused']

for _t in ('quick', 'thorough'):
    PROPS['C20'][_t] = PROPS['C20'][_t] + [tspec('H_load_vars')]
    PROPS['C19'][_t] = PROPS['C19'][_t] + [tspec('H_load_vars')]
PROPS['C20']['covers']['H_load_vars'] = ['vars-accepted', 'vars-rejected']

for _p in ('C01', 'C02', 'C03', 'C04', 'C10', 'C11', 'C12'):
    for _t in ('quick', 'thorough'):
        PROPS[_p][_t] = PROPS[_p][_t] + [sideb(['random'])]
for _p in ('C05', 'C06', 'C08'):
    for _t in ('quick', 'thorough'):
        PROPS[_p][_t] = PROPS[_p][_t] + [sideb(['random_reject'])]

PROPS['C05']['quick'] = PROPS['C05']['quick'] + [solve(1367, direct=1, missing=0, K=1)]
PROPS['C06']['quick'] = PROPS['C06']['quick'] + [sideb(['packages'])]
PROPS['C06']['thorough'] = PROPS['C06']['thorough'] + [sideb(['packages'])]
PROPS['C20']['quick'] = PROPS['C20']['quick'] + [sideb(['packages', 'frontend'])]


# ---- seed-dependent extra skeletons (lib/skeleton_pool.json: the survey of lib/skeleton_survey.py, every entry ran
# clean on the unchanged tree within 90 s): VERIF_SEED picks additional provider-graph skeletons for the H_solve checks.
import json as _json, os as _os, random as _random
try:
    _POOL = [e for e in _json.load(open(_os.path.join(_os.path.dirname(__file__), 'skeleton_pool.json'))) if e['ok'] and e['wall'] <= 25]
except Exception:
    _POOL = []


def _seeded_solve(direct, missing, n_quick=2, n_thorough=8, must_contain=''):
    def f(seed, tier):
        cands = [e for e in _POOL if e['direct'] == (1 if direct else 0) and must_contain in str(e['skeleton'])]
        if not cands:
            return []
        rnd = _random.Random(seed * 7919 + direct)
        picks = rnd.sample(cands, min(len(cands), n_quick if tier == 'quick' else n_thorough))
        out = []
        for e in picks:
            sp = solve(e['skeleton'], K=1, missing=missing, direct=direct)
            sp['covers'] = []   # the fixed skeletons carry the vacuity guards; a seeded extra one need not reach every label
            out.append(sp)
        return out
    return f


PROPS['C02']['seeded_extra'] = _seeded_solve(0, 1)
PROPS['C06']['seeded_extra'] = _seeded_solve(0, 2)
PROPS['C08']['seeded_extra'] = _seeded_solve(1, 1)
PROPS['C10']['seeded_extra'] = _seeded_solve(1, 0)
PROPS['C11']['seeded_extra'] = _seeded_solve(1, 1, must_contain='5')

PROPS['C02']['bounds_text'] += '; side B: every DAG over <=3 function providers x flags, kinds / packages / frontend / random (seeded) families executed under all fault schedules'
PROPS['C10']['bounds_text'] += '; side B: grouping, kinds, packages, frontend and random families must be accepted'

# C07 through the real front end (added after seeded change C07r3: a set that only re-exports another set and adds a
# binding skipped the cycle check): the reject family holds cycles through every edge kind in sets of every shape;
# a wire run that does not terminate within the limits is a C07 violation (lib/sideb.run_wire)
PROPS['C07']['quick'] = PROPS['C07']['quick'] + [sideb(['reject'])]
PROPS['C07']['thorough'] = PROPS['C07']['thorough'] + [sideb(['reject', 'random_reject'])]
PROPS['C07']['bounds_text'] += '; side B reject family: cycles closed by a function, struct, field provider or a binding, in direct, nested, inline and re-exporting sets, with the result on and off the cycle, through the real front end; the wire binary runs under a 900 s / 12 GB limit (60 s / 3 GB per package when searching for the culprit) and being stopped by it is a violation'

# H_newset: the front end's merging of provider sets (processExpr -> processNewSet -> objectCache -> buildProviderMap ->
# verifyAcyclic) on every argument list of <= 2 (3) items of a 24-item pool (providers, bindings, set variables, an alias,
# inline sets); added after seeded changes S45 / S47, which sit in processNewSet, in front of H_bpm and H_acyclic
for _p in ('C05', 'C06', 'C07', 'C08', 'C10', 'C11'):
    PROPS[_p]['quick'] = PROPS[_p]['quick'] + [tspec('H_newset', args=2, real_typestring=1), tspec('H_newset', args=1, warm=1, real_typestring=1)]
    PROPS[_p]['thorough'] = PROPS[_p]['thorough'] + [tspec('H_newset', args=3, real_typestring=1), tspec('H_newset', args=2, warm=1, real_typestring=1)]
    PROPS[_p]['covers'] = dict(PROPS[_p].get('covers', {}), H_newset=['newset-accepted', 'newset-refused'])
    PROPS[_p]['bounds_text'] += '; H_newset: wire.NewSet calls with every list of <=2 (3) arguments over a pool of 24 items (8 provider functions, 2 bindings, 2 field providers, 5 set variables one of which aliases another, 7 inline sets incl. nested ones), real go/ast + go/types, oracle = reference model of the documented rules (multiplicity through nested sets, co-located bindings, cycles); variant warm=1: one of ten set-valued items is analysed first with the same object cache and must not influence the verdict (no state leaks between the analyses of two sets)'


# variadic providers in every result shape (added after seeded change S63: the error check after a variadic call was dropped)
for _p in ('C01', 'C02', 'C03', 'C04'):
    for _t in ('quick', 'thorough'):
        PROPS[_p][_t] = PROPS[_p][_t] + [sideb(['variadic'])]

# two interface bindings passed directly to one wire.Build, both needed (added after seeded change S68: one source record
# shared by all bindings of a set made the first of two used bindings "unused")
for _p in ('C08', 'C10', 'C11'):
    PROPS[_p]['quick'] = PROPS[_p]['quick'] + [solve(15567, direct=1, missing=0, K=2)]
    PROPS[_p]['thorough'] = PROPS[_p]['thorough'] + [solve(155567, direct=1, missing=0, K=3), solve(115567, direct=2, missing=0, K=2, named=0)]


# homonymous packages (object cache keyed by import path): C05 / C09 variants of the packages family
for _p in ('C05', 'C09'):
    for _t in ('quick', 'thorough'):
        PROPS[_p][_t] = PROPS[_p][_t] + [sideb(['packages'])]


# identical names from different packages (C14's clause): the homonymous-package programs count for C14
for _t in ('quick', 'thorough'):
    PROPS['C14'][_t] = PROPS['C14'][_t] + [sideb(['packages'])]

# the reject family (every rule through the real front end, positioned diagnostics) also in C20's quick tier and in C09
PROPS['C20']['quick'] = PROPS['C20']['quick'] + [sideb(['reject'])]
for _t in ('quick', 'thorough'):
    PROPS['C09'][_t] = PROPS['C09'][_t] + [sideb(['reject'])]


# the zero value returned next to an error (C03): zeroValue on every kind of result type
for _t in ('quick', 'thorough'):
    PROPS['C03'][_t] = PROPS['C03'][_t] + [tspec('H_zero')]
PROPS['C03']['covers'] = dict(PROPS['C03'].get('covers', {}), H_zero=['zero'])

# two bindings written in one set (added after seeded change S85: bindings of a set were checked against the set as it
# was before any of them was installed, so two bindings of one interface in the same set went unnoticed)
PROPS['C05']['quick'] = PROPS['C05']['quick'] + [spec('H_bpm', params=dict(overrides=1, diamond=0, bind2=1), label='H_bpm[overrides=1,diamond=0,bind2=1]')]
PROPS['C05']['thorough'] = PROPS['C05']['thorough'] + [spec('H_bpm', params=dict(overrides=2, diamond=0, bind2=1), label='H_bpm[overrides=2,diamond=0,bind2=1]')]
PROPS['C05']['bounds_text'] += '; H_bpm bind2=1: a second binding written in the Build set itself whose interface type ranges over all ids (its concrete type: the set\'s provider, its value, or an unprovided type; a binding whose concrete type is another binding\'s interface of the same set is outside the bound)'
for _t in ('quick', 'thorough'):
    PROPS['C06'][_t] = PROPS['C06'][_t] + [wspec('H_field', fields=2, len=2)]
PROPS['C06']['covers'] = dict(PROPS['C06'].get('covers', {}), H_field=['field-selected'])

# package qualifiers of copied declarations go through qualifyImport (C15: "package qualifiers rewritten to the generated
# file's import names"): the import key must be the canonical path (added after seeded change S95)
PROPS['C15']['quick'] = PROPS['C15']['quick'] + [wspec('H_unvendor', len=12)]
PROPS['C15']['thorough'] = PROPS['C15']['thorough'] + [wspec('H_unvendor', len=16)]
PROPS['C15']['covers'] = dict(PROPS['C15'].get('covers', {}), H_unvendor=['unvendor'])


# copied syntax reaches the generated file for value expressions (C13) and copied declarations; a lost field may make it
# not compile (C01): H_copyast also counts for C01 / C13 (added after seeded change S101: CallExpr.Ellipsis not copied)
for _p in ('C01', 'C13'):
    for _t in ('quick', 'thorough'):
        PROPS[_p][_t] = PROPS[_p][_t] + [copyast()]
    PROPS[_p]['covers'] = dict(PROPS[_p].get('covers', {}), H_copyast=['copied'])

# a panic anywhere in the planner is a C20 matter: solve on skeletons with field providers and missing types
PROPS['C20']['quick'] = PROPS['C20']['quick'] + [solve(1347, K=1, missing=2), solve(13467, K=1, missing=1)]
PROPS['C20']['thorough'] = PROPS['C20']['thorough'] + [solve(11347, K=2, missing=2), solve(134567, K=1, missing=1)]


# homonymous packages also for the cleanup / failure contract and for unused items (seeded changes S103, S108)
for _p in ('C03', 'C04', 'C08'):
    for _t in ('quick', 'thorough'):
        PROPS[_p][_t] = PROPS[_p][_t] + [sideb(['packages'])]

# adversarial names matter for the aggregate cleanup too (seeded change S104: the single cleanup returned under the literal name)
for _t in ('quick', 'thorough'):
    PROPS['C04'][_t] = PROPS['C04'][_t] + [sideb(['naming'])]

# Bind under a dot import lives in the frontend family (seeded change S111)
for _t in ('quick', 'thorough'):
    PROPS['C11'][_t] = PROPS['C11'][_t] + [sideb(['frontend'])]


# wire check agrees with wire gen on the real binary, package by package, over the reject family and the front-end shapes
# (added after seeded change S131: Load dropped the malformed-injector error that gen reports)
for _t in ('quick', 'thorough'):
    PROPS['C19'][_t] = PROPS['C19'][_t] + [sideb(['reject', 'frontend'], check_agreement=True)]
PROPS['C19']['bounds_text'] += '; supplement (enumerated runs of the real binary, not solver-decided): wire check run on every package of the reject and frontend families must fail exactly where wire gen fails'

# copyAST must not crash on any node kind with its optional children absent (C20), seeded change S132
for _t in ('quick', 'thorough'):
    PROPS['C20'][_t] = PROPS['C20'][_t] + [copyast()]


# the kinds family (interface results, bindings, structs) also in C03's quick tier (seeded change S122)
PROPS['C03']['quick'] = PROPS['C03']['quick'] + [sideb(['kinds'])]
