"""Side-B pipeline: render corpus -> wire gen (binary built from $VERIF_REPO) -> compile ->
symbolic execution of the generated injectors' drivers (gosym batch) -> native replay."""
import json, os, re, shutil, subprocess, sys, time
import corpus as C
from runner import VERIF, REPO, GOENV, log, workdir, ensure_engine


def sh(cmd, cwd, env=None, timeout=1800):
    r = subprocess.run(cmd, cwd=cwd, env=env or GOENV, capture_output=True, text=True, timeout=timeout)
    return r.returncode, r.stdout, r.stderr


WIRE_MEM_GB = 12      # address-space limit for one run of the wire binary
WIRE_TIMEOUT = 900    # seconds for the whole corpus; a single package gets 60 s


def run_wire(cmd, cwd, env=None, timeout=WIRE_TIMEOUT, mem_gb=WIRE_MEM_GB):
    """Runs the wire binary under a time and memory limit. Returns (rc, out, err, stopped) where stopped is
    None, 'timeout' or 'memory' (C07: Wire terminates on every input)."""
    import resource

    def limit():
        resource.setrlimit(resource.RLIMIT_AS, (mem_gb << 30, mem_gb << 30))
    try:
        r = subprocess.run(cmd, cwd=cwd, env=env or GOENV, capture_output=True, text=True, timeout=timeout, preexec_fn=limit)
    except subprocess.TimeoutExpired as e:
        return -1, '', (e.stderr or b'').decode('utf-8', 'replace') if isinstance(e.stderr, bytes) else (e.stderr or ''), 'timeout'
    stopped = None
    if 'out of memory' in r.stderr or 'cannot allocate memory' in r.stderr or r.returncode in (-9, 137):
        stopped = 'memory'
    return r.returncode, r.stdout, r.stderr, stopped


def find_nonterminating(wire, mod, specs):
    """After a corpus-wide run was stopped: which packages make wire run away when generated alone?"""
    import concurrent.futures as cf

    def one(sp):
        rc, out, err, stopped = run_wire([wire, 'gen', './' + sp.pkg], mod, timeout=60, mem_gb=3)
        return sp, stopped
    bad = []
    with cf.ThreadPoolExecutor(max_workers=8) as ex:
        for sp, stopped in ex.map(one, specs):
            if stopped:
                bad.append((sp, stopped))
    return bad


def build_wire(pid):
    exe = os.path.join(workdir(pid), 'wire')
    rc, out, err = sh(['go', 'build', '-o', exe, './cmd/wire'], REPO)
    if rc != 0:
        return None, err
    return exe, ''


def make_module(pid, specs, name='mod'):
    mod = os.path.join(workdir(pid), name)
    shutil.rmtree(mod, ignore_errors=True)
    os.makedirs(os.path.join(mod, 'vrt'))
    open(os.path.join(mod, 'go.mod'), 'w').write(
        'module example.com/corpus\n\ngo 1.19\n\nrequire github.com/google/wire v0.0.0\n\nreplace github.com/google/wire => %s\n' % REPO)
    shutil.copy(os.path.join(REPO, 'go.sum'), os.path.join(mod, 'go.sum'))
    src = os.path.join(VERIF, 'sideb', 'vrt')
    for f in os.listdir(src):
        if f.endswith('.go'):
            shutil.copy(os.path.join(src, f), os.path.join(mod, 'vrt', f))
    ext = {}
    for sp in specs:
        ext.update(getattr(sp, 'ext_modules', {}) or {})
    if ext:
        gm = open(os.path.join(mod, 'go.mod')).read()
        for mp, files in sorted(ext.items()):
            d = os.path.join(mod, 'zz_ext', mp)
            os.makedirs(d, exist_ok=True)
            open(os.path.join(d, 'go.mod'), 'w').write('module %s\n\ngo 1.19\n' % mp)
            for fn, txt in files.items():
                open(os.path.join(d, fn), 'w').write(txt)
            gm += '\nrequire %s v0.0.0\n\nreplace %s => ./zz_ext/%s\n' % (mp, mp, mp)
        open(os.path.join(mod, 'go.mod'), 'w').write(gm)
    for sp in specs:
        for rel, fl in (getattr(sp, 'shared_pkgs', {}) or {}).items():
            os.makedirs(os.path.join(mod, rel), exist_ok=True)
            for fn, txt in fl.items():
                open(os.path.join(mod, rel, fn), 'w').write(txt)
    for i, sp in enumerate(specs):
        pkg = 'p%04d' % i
        sp.pkg = pkg
        d = os.path.join(mod, pkg)
        os.makedirs(d)
        if isinstance(sp, C.RawSpec):
            for fn, txt in sp.files.items():
                open(os.path.join(d, fn), 'w').write(txt.replace('{PKG}', pkg))
            for sub, fl in sp.extra_pkgs.items():
                os.makedirs(os.path.join(d, sub), exist_ok=True)
                for fn, txt in fl.items():
                    open(os.path.join(d, sub, fn), 'w').write(txt.replace('{PKG}', pkg))
        else:
            for fn, txt in C.render_package(sp, pkg, 'example.com/corpus').items():
                if fn == 'zz_driver.go' and sp.expect == 'reject':
                    continue   # nothing is generated for it, so there is nothing to drive
                open(os.path.join(d, fn), 'w').write(txt)
        open(os.path.join(d, 'SPEC.txt'), 'w').write('%s\nfamily=%s naming=%s expect=%s\n' % (sp.label, sp.family, sp.naming, sp.expect))
    return mod


def pkg_diag(err, pkg):
    """All diagnostics of `wire gen` that mention the package (messages may span several tab-indented lines)."""
    msgs = re.split(r'\n(?=wire: )', err)
    return '\n'.join(m for m in msgs if re.search(r'[/.]%s[/. :]' % pkg, m))


def snapshot_gen(mod):
    snap = {}
    for root, dirs, files in os.walk(mod):
        for f in files:
            if f == 'wire_gen.go':
                snap[os.path.relpath(os.path.join(root, f), mod)] = open(os.path.join(root, f), 'rb').read()
    return snap


def determinism_checks(pid, wire, mod, res, label):
    """C16 supplement (enumerated runs, not solver-decided): repeat, other location, other invocation directory
    and per-package patterns must give byte-identical files without absolute paths."""
    base = snapshot_gen(mod)
    for rel, data in base.items():
        if mod.encode() in data or b'/verif/' in data or b'/tmp/' in data:
            res['confirmed'].append(dict(cls='C16:generated file contains an absolute path', props=['C16'], msg='absolute path in %s' % rel,
                                         artifact_dir=os.path.join(mod, os.path.dirname(rel)), model=None, harness=label))
    sh([wire, 'gen', './...'], mod)
    again = snapshot_gen(mod)
    other = os.path.join(workdir(pid), 'elsewhere', 'deeper', 'corpus_copy')
    shutil.rmtree(os.path.join(workdir(pid), 'elsewhere'), ignore_errors=True)
    shutil.copytree(mod, other, ignore=shutil.ignore_patterns('wire_gen.go', 'zz_replay_*'))
    gm = open(os.path.join(other, 'go.mod')).read()
    pk_dirs = sorted(d for d in os.listdir(other) if re.fullmatch(r'p\d+', d))
    # from a package directory, naming packages one by one with relative patterns
    if pk_dirs:
        first = os.path.join(other, pk_dirs[0])
        for i in range(0, len(pk_dirs), 40):
            sh([wire, 'gen'] + ['../' + d + '/...' for d in pk_dirs[i:i + 40]], first)
    moved = snapshot_gen(other)
    shutil.rmtree(os.path.join(workdir(pid), 'elsewhere'), ignore_errors=True)
    # every package generated alone (independent of what else is processed in the same invocation)
    alone_root = os.path.join(workdir(pid), 'alone', 'corpus')
    shutil.rmtree(os.path.join(workdir(pid), 'alone'), ignore_errors=True)
    shutil.copytree(mod, alone_root, ignore=shutil.ignore_patterns('wire_gen.go', 'zz_replay_*', '_p*'))
    for rel in sorted(base):
        sh([wire, 'gen', './' + os.path.dirname(rel)], alone_root)
    alone = snapshot_gen(alone_root)
    # with -header_file (one header shared by all packages of an invocation): the eight packages with the smallest
    # output, generated together and each alone, must give the same bytes, namely header + the headerless file
    small = sorted(base, key=lambda r: (len(base[r]), r))[:8]
    hdr_bad = []
    if small:
        hf = os.path.join(alone_root, 'hdr.txt')
        open(hf, 'w').write('// Short header.\n\n')
        for rel in small:
            os.remove(os.path.join(alone_root, rel))
        sh([wire, 'gen', '-header_file', hf] + ['./' + os.path.dirname(r) for r in small], alone_root)
        together_h = snapshot_gen(alone_root)
        for rel in small:
            if os.path.exists(os.path.join(alone_root, rel)):
                os.remove(os.path.join(alone_root, rel))
            sh([wire, 'gen', '-header_file', hf, './' + os.path.dirname(rel)], alone_root)
        alone_h = snapshot_gen(alone_root)
        for rel in small:
            want = b'// Short header.\n\n' + base[rel]
            if together_h.get(rel) != alone_h.get(rel) or alone_h.get(rel) != want:
                hdr_bad.append(rel)
                res['confirmed'].append(dict(cls='C16,C17:with a header file the output depends on the other packages of the invocation', props=['C16', 'C17'],
                                             msg='wire gen -header_file for %d packages together / for %s alone / header + headerless output differ for %s' % (len(small), os.path.dirname(rel), rel),
                                             artifact_dir=os.path.join(mod, os.path.dirname(rel)), model=None, harness=label))
    shutil.rmtree(os.path.join(workdir(pid), 'alone'), ignore_errors=True)
    alone_equal = 0
    for rel, data in base.items():
        if alone.get(rel) == data:
            alone_equal += 1
        else:
            res['confirmed'].append(dict(cls='C16:output depends on the other packages of the invocation', props=['C16'],
                                         msg='wire gen ./... and wire gen ./%s produce different bytes for %s' % (os.path.dirname(rel), rel),
                                         artifact_dir=os.path.join(mod, os.path.dirname(rel)), model=None, harness=label))
    # GOPATH mode with a vendor directory (github.com/google/wire and the external modules are vendored)
    gp = os.path.join(workdir(pid), 'gopath')
    shutil.rmtree(gp, ignore_errors=True)
    gsrc = os.path.join(gp, 'src', 'example.com', 'corpus')
    shutil.copytree(mod, gsrc, ignore=shutil.ignore_patterns('wire_gen.go', 'zz_replay_*', 'go.mod', 'go.sum', 'zz_ext', '_p*'))
    vend = os.path.join(gsrc, 'vendor')
    os.makedirs(os.path.join(vend, 'github.com', 'google', 'wire'))
    shutil.copy(os.path.join(REPO, 'wire.go'), os.path.join(vend, 'github.com', 'google', 'wire', 'wire.go'))
    if os.path.isdir(os.path.join(mod, 'zz_ext')):
        for root, dirs, files in os.walk(os.path.join(mod, 'zz_ext')):
            for f in files:
                if f.endswith('.go'):
                    rel = os.path.relpath(os.path.join(root, f), os.path.join(mod, 'zz_ext'))
                    os.makedirs(os.path.dirname(os.path.join(vend, rel)), exist_ok=True)
                    shutil.copy(os.path.join(root, f), os.path.join(vend, rel))
    genv = dict(GOENV, GO111MODULE='off', GOPATH=gp, GOFLAGS='')
    sh([wire, 'gen', './...'], gsrc, env=genv)
    vendored = snapshot_gen(gsrc)
    shutil.rmtree(gp, ignore_errors=True)
    res['extra']['determinism'] = dict(files=len(base), repeat_equal=0, moved_equal=0, gopath_vendor_equal=0, alone_equal=alone_equal, header_checked=len(small), header_equal=len(small) - len(hdr_bad))
    for rel, data in base.items():
        if rel.startswith('_'):
            continue
        if vendored.get(rel) == data:
            res['extra']['determinism']['gopath_vendor_equal'] += 1
        else:
            res['confirmed'].append(dict(cls='C16:output depends on the dependency layout', props=['C16'],
                                         msg='wire gen in GOPATH mode with a vendor directory produced different bytes for %s than in module mode' % rel,
                                         artifact_dir=os.path.join(mod, os.path.dirname(rel)), model=None, harness=label))
    for rel, data in base.items():
        if again.get(rel) == data:
            res['extra']['determinism']['repeat_equal'] += 1
        else:
            res['confirmed'].append(dict(cls='C16:repeated run differs', props=['C16'], msg='second wire gen produced different bytes for %s' % rel,
                                         artifact_dir=os.path.join(mod, os.path.dirname(rel)), model=None, harness=label))
        if moved.get(rel) == data:
            res['extra']['determinism']['moved_equal'] += 1
        else:
            res['confirmed'].append(dict(cls='C16:output depends on location or invocation', props=['C16'],
                                         msg='wire gen in another checkout location, run from a package directory with per-package patterns, produced different bytes for %s' % rel,
                                         artifact_dir=os.path.join(mod, os.path.dirname(rel)), model=None, harness=label))
    res['disagreements_checked'] += 2 * len(base)


def run_sideb(pid, specs, props_filter=None, label='sideB', determinism=False, check_agreement=False):
    """Returns a result dict in the shape runner.write_evidence understands."""
    t0 = time.time()
    res = dict(entry=label, programs=len(specs), paths=0, completed=0, decisions=0, violations=[], confirmed=[], inconclusive_list=[],
               samples=[], sample_cases=[], covers={}, solver_queries=0, solver_wall_s=0.0, assertions_discharged=0, disagreements_checked=0,
               functions_executed={}, validated=0, extra={})
    wire, err = build_wire(pid)
    if wire is None:
        res['inconclusive_list'].append('cannot build cmd/wire from the tree: ' + err[-400:])
        return res
    mod = make_module(pid, specs)
    rc, out, err, stopped = run_wire([wire, 'gen', './...'], mod)
    if stopped:
        bad = find_nonterminating(wire, mod, specs)
        for sp, why in bad:
            res['confirmed'].append(dict(cls='C07,C20:wire does not terminate', props=['C07', 'C20'] + list(getattr(sp, 'reject_props', []) or []),
                                         msg='wire gen ./%s (%s) was stopped by the %s limit (60 s / 3 GB for one small package): analysis does not terminate' % (sp.pkg, sp.label, why),
                                         artifact_dir=os.path.join(mod, sp.pkg), model=None, harness=label))
        if not bad:
            res['inconclusive_list'].append('wire gen over the corpus was stopped by the %s limit and no single package reproduces it' % stopped)
            return res
        # carry on with the remaining packages
        badset = {sp.pkg for sp, _ in bad}
        specs = [sp for sp in specs if sp.pkg not in badset]
        rc, err = 0, ''
        for i in range(0, len(specs), 60):
            rc2, out2, err2, st2 = run_wire([wire, 'gen'] + ['./' + sp.pkg for sp in specs[i:i + 60]], mod)
            if st2:
                res['inconclusive_list'].append('wire gen was stopped by the %s limit again after excluding %s' % (st2, ', '.join(sorted(badset))))
                for c in res['confirmed']:
                    c['class'] = c['cls']
                if props_filter:
                    res['confirmed'] = [c for c in res['confirmed'] if props_filter in c['props']]
                return res
            rc |= rc2
            err += err2
    if 'panic:' in err or 'goroutine ' in err:
        m = re.search(r'panic: [^\n]*', err)
        res['confirmed'].append(dict(cls='C20,C10:wire panicked', props=['C20', 'C10'], msg='wire gen crashed on a corpus of well-formed programs: %s' % (m.group(0) if m else err[-300:]),
                                     artifact_dir=None, model=None, harness=label))
        for c in res['confirmed']:
            c['class'] = c['cls']
        if props_filter:
            res['confirmed'] = [c for c in res['confirmed'] if props_filter in c['props']]
        if not res['confirmed']:
            res['inconclusive_list'].append('wire gen crashed (a C20 violation, reported by the C20 check): ' + (m.group(0) if m else ''))
        return res
    gen_fail = set(re.findall(r'wire: example\.com/corpus/(p\d+): generate failed', err))
    wrote = set(re.findall(r'wire: example\.com/corpus/(p\d+): wrote', err))
    res['extra']['wire_gen'] = dict(rc=rc, wrote=len(wrote), failed=len(gen_fail))
    if rc != 0 and not gen_fail and not wrote:
        res['inconclusive_list'].append('wire gen did not run: ' + err[-600:])
        return res
    by_pkg = {sp.pkg: sp for sp in specs}
    ok_pkgs = []
    for sp in specs:
        if sp.expect == 'accept':
            if sp.pkg in gen_fail or sp.pkg not in wrote:
                m = re.search(r'(wire: [^\n]*%s[^\n]*\n(?:\t[^\n]*\n)*)' % sp.pkg, err)
                res['confirmed'].append(dict(cls='C10:well-formed program rejected', props=['C10'], msg='wire gen rejected a well-formed program (%s): %s' % (sp.label, (m.group(1) if m else '')[:400]),
                                             artifact_dir=os.path.join(mod, sp.pkg), model=None, harness=label))
            else:
                ok_pkgs.append(sp)
        else:
            if sp.pkg in wrote:
                res['confirmed'].append(dict(cls='%s:ill-formed program accepted' % ','.join(sp.reject_props), props=sp.reject_props,
                                             msg='wire gen accepted a program it must reject (%s)' % sp.label, artifact_dir=os.path.join(mod, sp.pkg), model=None, harness=label))
            elif sp.pkg not in gen_fail:
                props = sorted(set(list(sp.reject_props) + ['C20']))
                res['confirmed'].append(dict(cls='%s:ill-formed program silently ignored' % ','.join(props), props=props,
                                             msg='wire gen neither rejected nor generated %s (%s): no "generate failed", no diagnostic, no output' % (sp.pkg, sp.label),
                                             artifact_dir=os.path.join(mod, sp.pkg), model=None, harness=label))
            elif getattr(sp, 'diag_must_contain', None) and sp.diag_must_contain not in pkg_diag(err, sp.pkg):
                res['confirmed'].append(dict(cls='%s:the diagnostic does not name the type' % ','.join(sp.reject_props), props=sp.reject_props,
                                             msg='wire gen rejected %s (%s) but no diagnostic for the package mentions %r: %s' % (sp.pkg, sp.label, sp.diag_must_contain, pkg_diag(err, sp.pkg)[:300]),
                                             artifact_dir=os.path.join(mod, sp.pkg), model=None, harness=label))
            elif not re.search(r'^wire: [^\n]*%s[^\n]*\.go:\d+:\d+: ' % sp.pkg, err, re.M):
                res['confirmed'].append(dict(cls='C20:rejected without a positioned diagnostic', props=['C20'],
                                             msg='wire gen rejected %s (%s) without any file:line:column diagnostic' % (sp.pkg, sp.label), artifact_dir=os.path.join(mod, sp.pkg), model=None, harness=label))
            res['disagreements_checked'] += 1
    if check_agreement:
        # C19: wire check agrees with wire gen, package by package (every must-reject program, and a sample of the others)
        import concurrent.futures as cf
        sample = [sp for sp in specs if sp.expect == 'reject'] + [sp for sp in specs if sp.expect == 'accept'][:40]

        def chk(sp):
            rc2, out2, err2, st2 = run_wire([wire, 'check', './' + sp.pkg], mod, timeout=120, mem_gb=4)
            return sp, rc2, err2, st2
        agree = 0
        with cf.ThreadPoolExecutor(max_workers=8) as ex:
            for sp, rc2, err2, st2 in ex.map(chk, sample):
                gen_ok = sp.pkg in wrote
                gen_failed = sp.pkg in gen_fail
                if st2 or 'panic:' in err2:
                    res['confirmed'].append(dict(cls='C19,C20:wire check crashed or did not terminate', props=['C19', 'C20'], msg='wire check ./%s (%s): %s' % (sp.pkg, sp.label, (st2 or err2[-200:])),
                                                 artifact_dir=os.path.join(mod, sp.pkg), model=None, harness=label))
                elif gen_failed and rc2 == 0:
                    res['confirmed'].append(dict(cls='C19:wire check accepts what wire gen rejects', props=['C19'], msg='wire gen fails on %s (%s) but wire check ./%s exits 0' % (sp.pkg, sp.label, sp.pkg),
                                                 artifact_dir=os.path.join(mod, sp.pkg), model=None, harness=label))
                elif gen_ok and rc2 != 0:
                    res['confirmed'].append(dict(cls='C19:wire check rejects what wire gen generates', props=['C19'], msg='wire gen writes %s (%s) but wire check ./%s exits %d: %s' % (sp.pkg, sp.label, sp.pkg, rc2, err2[-200:]),
                                                 artifact_dir=os.path.join(mod, sp.pkg), model=None, harness=label))
                else:
                    agree += 1
        res['extra']['check_agreement'] = dict(packages=len(sample), agree=agree)
        res['disagreements_checked'] += len(sample)
    if determinism:
        determinism_checks(pid, wire, mod, res, label)
    # compile with the generated files standing in for the templates (C01)
    rc, out, err = sh(['go', 'build', './...'], mod)
    bad_compile = set()
    if rc != 0:
        for m in re.finditer(r'^(p\d+)/([^:]+):(\d+):\d+: (.*)$', err, re.M):
            bad_compile.add(m.group(1))
        for pk in sorted(bad_compile):
            sp = by_pkg.get(pk)
            if sp is None:
                continue
            lines = [l for l in err.splitlines() if l.startswith(pk + '/')][:4]
            props = list(getattr(sp, 'compile_props', ['C01'])) + (['C14'] if sp.naming == 'adversarial' else [])
            # a program built around struct / field providers, bindings or values that does not compile is also
            # a failure of the property describing what those items provide
            kinds = {n.kind for n in getattr(sp, 'nodes', [])}
            if kinds & {C.WSTRUCT, C.FIELD}:
                props += ['C12', 'C02']
            if C.BIND in kinds:
                props += ['C11']
            if kinds & {C.VALUE, C.IVALUE} or sp.family == 'values':
                props += ['C13']
            props += list(getattr(sp, 'extra_props', None) or [])
            props = sorted(set(props))
            res['confirmed'].append(dict(cls='%s:generated package does not compile' % ','.join(props), props=props,
                                         msg='package with generated wire_gen.go does not compile (%s): %s' % (sp.label, ' | '.join(lines)),
                                         artifact_dir=os.path.join(mod, pk), model=None, harness=label))
        if not bad_compile:
            res['inconclusive_list'].append('go build of the corpus failed: ' + err[-600:])
            return res
    run_pkgs = [sp for sp in ok_pkgs if sp.pkg not in bad_compile]
    for pk in bad_compile:
        shutil.rmtree(os.path.join(mod, pk) + '_disabled', ignore_errors=True)
        os.rename(os.path.join(mod, pk), os.path.join(mod, pk) + '_disabled')
        os.rename(os.path.join(mod, pk) + '_disabled', os.path.join(mod, '_' + pk))
    # symbolic execution of every driver
    exe = ensure_engine()
    outp = os.path.join(workdir(pid), 'sideb_batch.json')
    pats = './...'
    cmd = [exe, '-repo', mod, '-pkg', pats, '-batch', '-entry', 'VDrive', '-interp', 'example.com/corpus/vrt,errors,github.com/google/wire,example.org/...', '-out', outp,
           '-samples', '1', '-max-steps', '2000000']
    r = subprocess.run(cmd, env=GOENV, capture_output=True, text=True)
    log(r.stderr.strip()[-400:])
    try:
        br = json.load(open(outp))
    except Exception as e:
        res['inconclusive_list'].append('gosym batch produced no result: %s %s' % (e, r.stderr[-400:]))
        return res
    for le in br.get('load_errors') or []:
        res['inconclusive_list'].append('corpus load error: ' + le[:300])
    seen = set()
    for rr in br['results']:
        pk = rr['pkg'].rsplit('/', 1)[-1]
        seen.add(pk)
        sp = by_pkg.get(pk)
        res['paths'] += rr['paths']
        res['completed'] += rr['completed']
        res['decisions'] += rr['decisions']
        res['solver_queries'] += rr['solver_queries']
        res['solver_wall_s'] += rr['solver_wall_s']
        res['assertions_discharged'] += rr['assertions_discharged']
        for k, n in (rr.get('covers') or {}).items():
            res['covers'][k] = res['covers'].get(k, 0) + n
        for reason, n in (rr.get('inconclusive') or {}).items():
            res['inconclusive_list'].append('%s (%s): %s' % (pk, sp.label if sp else '?', reason[:300]))
        if len(res['sample_cases']) < 6 and rr.get('samples'):
            res['sample_cases'].append(dict(program=sp.label if sp else pk, fault_schedule_and_args=rr['samples'][0]['model'], covers=rr['samples'][0].get('covers')))
        cls_seen = set()
        for v in rr['violations']:
            cls = v.get('class') or v['msg']
            if cls in cls_seen:
                continue
            cls_seen.add(cls)
            if re.match(r'C\d+', cls):
                props = cls.split(':', 1)[0].split(',')
            else:
                # the generated injector (or the driver) panicked: with a failing provider in the
                # schedule that is the failure contract (C03), otherwise wiring / cleanup (C02, C04)
                faulty = any(k.startswith('fault_') and val != 0 for k, val in (v.get('model') or {}).items())
                props = ['C03'] if faulty else ['C02', 'C04']
                cls = 'generated injector panicked: ' + v['msg'][:120]
            if sp is not None and sp.naming == 'adversarial' and 'C14' not in props:
                props = props + ['C14']
            # a program written to exercise one clause of a property counts for that property whatever the
            # trace oracle's own class is (e.g. homonymous packages: C14; values: C13)
            for xp in (getattr(sp, 'extra_props', None) or []) + (['C13'] if sp is not None and sp.family == 'values' else []):
                if xp not in props:
                    props = props + [xp]
            rp = replay_driver(pid, mod, pk, v['model'])
            confirmed = rp.startswith('assert-failed') or rp.startswith('panic')
            item = dict(cls=','.join(props) + ':' + cls.split(':', 1)[-1], props=props, msg='%s [program: %s]' % (v['msg'], sp.label if sp else pk), model=v['model'],
                        artifact_dir=os.path.join(mod, pk), harness=label, replay=rp)
            if confirmed:
                res['confirmed'].append(item)
            else:
                res['inconclusive_list'].append('unconfirmed side-B counterexample in %s: %s (native: %s)' % (pk, v['msg'], rp))
    for sp in run_pkgs:
        if sp.pkg not in seen:
            res['inconclusive_list'].append('driver of %s was not executed' % sp.pkg)
    # translator validation: a few drivers natively on their sample tape
    nval = 0
    for rr in br['results']:
        if nval >= 3 or not rr.get('samples'):
            continue
        pk = rr['pkg'].rsplit('/', 1)[-1]
        rp = replay_driver(pid, mod, pk, rr['samples'][0]['model'])
        nval += 1
        if rp != 'ok':
            res['inconclusive_list'].append('translator validation mismatch: %s passes in the engine, native says %s' % (pk, rp))
    res['validated'] = nval
    res['wall_s'] = time.time() - t0
    res['_wall'] = res['wall_s']
    res['class'] = None
    # class key expected by runner
    for c in res['confirmed']:
        c['class'] = c['cls']
    if props_filter:
        res['other'] = [c for c in res['confirmed'] if props_filter not in c['props']]
        res['confirmed'] = [c for c in res['confirmed'] if props_filter in c['props']]
    return res


def replay_driver(pid, mod, pk, model):
    d = os.path.join(mod, 'zz_replay_' + pk)
    os.makedirs(d, exist_ok=True)
    open(os.path.join(d, 'main.go'), 'w').write(
        'package main\n\nimport (\n\t"example.com/corpus/%s"\n\t"example.com/corpus/vrt"\n)\n\nfunc main() {\n\tvrt.LoadTape()\n\tvrt.RunDriver(%s.VDrive)\n}\n' % (pk, pk))
    tape = os.path.join(d, 'tape.json')
    json.dump({'model': model}, open(tape, 'w'))
    try:
        r = subprocess.run(['go', 'run', '.'], cwd=d, env=dict(GOENV, VERIF_REPLAY=tape), capture_output=True, text=True, timeout=300)
    except subprocess.TimeoutExpired:
        return 'timeout'
    out = r.stdout + r.stderr
    m = re.search(r'^REPLAY-RESULT: (.*)$', out, re.M)
    shutil.rmtree(d, ignore_errors=True)
    if not m:
        pm = re.search(r'^panic: (.*)$', out, re.M)
        return 'panic ' + (pm.group(1) if pm else 'crash: ' + out[-300:])
    return m.group(1).strip()
