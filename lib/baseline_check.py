#!/usr/bin/env python3
"""Runs the repo's test suite (guard off) and compares with BASELINE.json stable_pass."""
import json, subprocess, sys, os
repo = sys.argv[1] if len(sys.argv) > 1 else '/repo'
base = json.load(open('/root/.vp/BASELINE.json'))
env = dict(os.environ, GOFLAGS='-mod=mod', GOPROXY='off', GOSUMDB='off')
r = subprocess.run(['go', 'test', '-mod=mod', '-json', '-vet=off', '-count=1', '-timeout', '25m', './...'], cwd=repo, env=env, capture_output=True, text=True)
passed = set()
for line in r.stdout.splitlines():
    try:
        e = json.loads(line)
    except Exception:
        continue
    if e.get('Action') == 'pass' and e.get('Test'):
        passed.add(e['Package'] + '::' + e['Test'])
missing = [t for t in base['stable_pass'] if t not in passed]
print('baseline stable_pass: %d, passing now: %d, missing: %d' % (len(base['stable_pass']), len(base['stable_pass']) - len(missing), len(missing)))
for m in missing:
    print('  MISSING', m)
sys.exit(1 if missing else 0)
