"""Driver shared by all property checks: runs gosym harnesses, replays
counterexamples natively, validates the translator on sample paths, applies the
known-findings file and writes the evidence."""
import json, os, sys, subprocess, time, shutil, re, glob

VERIF = os.path.dirname(os.path.dirname(os.path.abspath(__file__)))
REPO = os.environ.get('VERIF_REPO', '/repo')
# A run against anything but /repo itself (a seeded change in a scratch worktree) keeps its scratch files,
# replays and evidence apart, so that it neither disturbs a concurrent check nor overwrites evidence.
ALT = '' if os.path.realpath(REPO) == '/repo' else '_alt_' + re.sub(r'\W+', '_', os.path.basename(REPO.rstrip('/')))
GOENV = dict(os.environ, GOFLAGS='-mod=mod', GOPROXY='off', GOSUMDB='off', GOTOOLCHAIN='local')
WIRE_PKG = 'github.com/google/wire/internal/wire'
MAIN_PKG = 'github.com/google/wire/cmd/wire'
PKG_DIR = {WIRE_PKG: 'internal/wire', MAIN_PKG: 'cmd/wire'}
DEFAULT_INTERP = ['go/types', 'golang.org/x/tools/go/types/typeutil', 'errors', 'go/token', 'go/ast']


def log(*a):
    print(*a, file=sys.stderr, flush=True)


def ensure_engine():
    exe = os.path.join(VERIF, 'bin', 'gosym')
    src = glob.glob(os.path.join(VERIF, 'engine', '*.go'))
    if os.path.exists(exe) and all(os.path.getmtime(exe) >= os.path.getmtime(s) for s in src):
        return exe
    os.makedirs(os.path.join(VERIF, 'bin'), exist_ok=True)
    r = subprocess.run(['go', 'build', '-o', exe, '.'], cwd=os.path.join(VERIF, 'engine'), env=GOENV,
                       capture_output=True, text=True)
    if r.returncode != 0:
        log(r.stderr)
        raise SystemExit(2)
    return exe


def workdir(pid):
    d = os.path.join(VERIF, 'work' + ALT, pid) if not ALT else os.path.join(VERIF, 'work', ALT.strip('_'), pid)
    os.makedirs(d, exist_ok=True)
    return d


def spec(entry, pkg=WIRE_PKG, overlay='harness/wire', interp=None, init=None, params=None, deadline='45m',
         max_steps=None, max_paths=None, label=None, extra_overlay=None, replayable=True, solver='z3', overlay2=None):
    return dict(entry=entry, pkg=pkg, overlay=overlay, overlay2=overlay2 or [], interp=interp if interp is not None else DEFAULT_INTERP,
                init=init or [], params=params or {}, deadline=deadline, max_steps=max_steps, max_paths=max_paths,
                label=label or entry, extra_overlay=extra_overlay or {}, replayable=replayable, solver=solver)


def overlay_dirs(ov):
    if isinstance(ov, str):
        ov = [ov]
    return [d if os.path.isabs(d) else os.path.join(VERIF, d) for d in ov]


def run_gosym(pid, sp, idx):
    exe = ensure_engine()
    out = os.path.join(workdir(pid), 'run_%d_%s.json' % (idx, sp['entry']))
    if sp.get('pre'):
        sp['pre'](pid, sp)
    cmd = [exe, '-repo', REPO, '-pkg', sp['pkg'], '-entry', sp['entry'], '-out', out, '-deadline', sp['deadline'], '-solver', sp['solver']]
    for od in overlay_dirs(sp['overlay']):
        cmd += ['-overlay', od]
    for d, target in sp.get('overlay2') or []:
        cmd += ['-overlay', '%s=>%s' % (os.path.join(VERIF, d), target)]
    if sp['interp']:
        cmd += ['-interp', ','.join(sp['interp'])]
    # packages executed from their SSA need their package-level variables: run their init functions too (go/token's
    # token table, go/ast's kind strings, astutil's abort sentinel); without it Token.String() returned "" in the
    # engine only, which made astutil.PathEnclosingInterval pick another path than natively
    inits = [p for p in ('go/token', 'go/ast', 'golang.org/x/tools/go/ast/astutil') if p in (sp['interp'] or []) and p not in sp['init']] + list(sp['init'])
    if inits:
        cmd += ['-init', ','.join(inits)]
    for k, v in sp['params'].items():
        cmd += ['-param', '%s=%d' % (k, v)]
    for k, v in sp['extra_overlay'].items():
        cmd += ['-overlay-file', '%s=%s' % (k, v)]
    if sp['max_steps']:
        cmd += ['-max-steps', str(sp['max_steps'])]
    if sp['max_paths']:
        cmd += ['-max-paths', str(sp['max_paths'])]
    w = os.environ.get('VERIF_WORKERS')
    if w:
        cmd += ['-workers', w]
    t0 = time.time()
    r = subprocess.run(cmd, env=GOENV, capture_output=True, text=True)
    dt = time.time() - t0
    log(r.stderr.strip())
    try:
        res = json.load(open(out))
    except Exception as e:
        res = dict(entry=sp['entry'], error='no result: %s %s' % (e, r.stderr[-500:]), violations=[],
                   inconclusive={'engine crashed': 1}, paths=0, samples=[], covers={}, functions_executed={})
    res['_spec'] = sp
    res['_wall'] = dt
    res['_rc'] = r.returncode
    return res


# ---------------------------------------------------------------- native replay

_replay_bin = {}


def build_replay_binary(pid, pkg, overlay, overlay2=()):
    """go test -c of the package with the harness (native runtime) overlaid."""
    key = (pkg, str(overlay), tuple(overlay2))
    if key in _replay_bin:
        return _replay_bin[key]
    wd = workdir(pid)
    pkgdir = os.path.join(REPO, PKG_DIR[pkg])
    ov = {}
    entries = []
    for src in overlay_dirs(overlay):
        for f in sorted(os.listdir(src)):
            if not f.endswith('.go') or f.endswith('_engine.go'):
                continue
            ov[os.path.join(pkgdir, 'zz_verif_' + f)] = os.path.join(src, f)
            txt = open(os.path.join(src, f)).read()
            entries += re.findall(r'^func (H_\w+)\(\)', txt, re.M)
    for d2, target in overlay2:
        src2 = os.path.join(VERIF, d2)
        for f in sorted(os.listdir(src2)):
            if not f.endswith('.go') or f.endswith('_engine.go') or f.endswith('_test.go'):
                continue
            ov[os.path.join(REPO, PKG_DIR[target], 'zz_verif_' + f)] = os.path.join(src2, f)
    pkgname = 'wire' if pkg == WIRE_PKG else 'main'
    ent = os.path.join(wd, 'entries_%s.go' % pkgname)
    with open(ent, 'w') as fh:
        fh.write('//go:build verif\n\npackage %s\n\nfunc vNativeEntries() map[string]func() {\n\treturn map[string]func(){\n' % pkgname)
        for e in entries:
            fh.write('\t\t"%s": %s,\n' % (e, e))
        fh.write('\t}\n}\n')
    ov[os.path.join(pkgdir, 'zz_verif_entries_native.go')] = ent
    ovf = os.path.join(wd, 'overlay_%s.json' % pkgname)
    json.dump({'Replace': ov}, open(ovf, 'w'))
    exe = os.path.join(wd, 'replay_%s.test' % pkgname)
    r = subprocess.run(['go', 'test', '-c', '-tags', 'verif', '-vet=off', '-overlay', ovf, '-o', exe, '.'],
                       cwd=pkgdir, env=GOENV, capture_output=True, text=True)
    if r.returncode != 0:
        log('native replay build failed:\n' + r.stderr[-3000:])
        _replay_bin[key] = None
        return None
    _replay_bin[key] = exe
    return exe


def replay_native(pid, sp, model, tape_path=None):
    """Runs the harness natively on the model. Returns dict(result=..., covers=[...], raw=...)."""
    exe = build_replay_binary(pid, sp['pkg'], sp['overlay'], tuple(tuple(x) for x in (sp.get('overlay2') or [])))
    if exe is None:
        return dict(result='build-failed', covers=[], raw='')
    wd = workdir(pid)
    if tape_path is None:
        tape_path = os.path.join(wd, 'tape_tmp.json')
    json.dump({'model': model, 'entry': sp['entry'], 'params': sp['params'], 'pkg': sp['pkg'], 'overlay': sp['overlay'] if isinstance(sp['overlay'], str) else list(sp['overlay'])},
              open(tape_path, 'w'), indent=1, sort_keys=True)
    env = dict(GOENV, VERIF_ENTRY=sp['entry'], VERIF_REPLAY=tape_path,
               VERIF_PARAMS=','.join('%s=%d' % kv for kv in sp['params'].items()))
    pkgdir = os.path.join(REPO, PKG_DIR[sp['pkg']])
    try:
        r = subprocess.run([exe, '-test.run', 'TestVerifReplay$', '-test.v'], cwd=pkgdir, env=env,
                           capture_output=True, text=True, timeout=300)
        out = r.stdout + r.stderr
    except subprocess.TimeoutExpired:
        return dict(result='timeout', covers=[], raw='')
    m = re.search(r'^REPLAY-RESULT: (.*)$', out, re.M)
    covers = sorted(re.findall(r'^REPLAY-COVER: (.*)$', out, re.M))
    if not m:
        # the test binary itself died: a native panic outside the harness' recover
        pm = re.search(r'^panic: (.*)$', out, re.M)
        return dict(result='panic ' + (pm.group(1) if pm else 'crash'), covers=covers, raw=out[-2000:])
    return dict(result=m.group(1).strip(), covers=covers, raw=out[-2000:])


# ---------------------------------------------------------------- known findings

def load_known():
    p = os.path.join(VERIF, 'known_findings.json')
    if not os.path.exists(p):
        return []
    return json.load(open(p))['findings']


def match_known(known, pid, harness, cls, model=None, msg=''):
    for k in known:
        if k.get('status') != 'open' or k['property'] != pid:
            continue
        if k.get('harness') and k['harness'] != harness:
            continue
        if k.get('class') and k['class'] != cls:
            continue
        if k.get('msg_re') and not re.search(k['msg_re'], msg or ''):
            continue
        when = k.get('when')
        if when and model is not None:
            ok = True
            for var, val in when.items():
                if model.get(var) != val:
                    ok = False
            if not ok:
                continue
        return k
    return None


def class_props(cls, default_props):
    """'C02,C11:msg' -> ['C02','C11']; 'panic' -> default panic props."""
    if ':' in cls:
        head = cls.split(':', 1)[0]
        if re.fullmatch(r'C\d+(,C\d+)*', head):
            return head.split(',')
    return default_props


# ---------------------------------------------------------------- main per-property driver

def run_property(pid, tier):
    import props as P
    cfg = P.PROPS[pid]
    t0 = time.time()
    seed = int(os.environ.get('VERIF_SEED', '0') or 0)
    specs = cfg[tier] if tier in cfg else cfg['quick']
    if callable(specs):
        specs = specs(seed)
    if cfg.get('seeded_extra'):
        specs = list(specs) + list(cfg['seeded_extra'](seed, tier))
    # maintenance aid (never set by the registered commands): VERIF_SPEC_FILTER=<regex> runs only the specs whose label
    # matches, into a scratch area, e.g. to re-run the side-B parts of the thorough tier after a corpus change
    flt = os.environ.get('VERIF_SPEC_FILTER')
    if flt:
        specs = [sp for sp in specs if re.search(flt, str(sp.get('label', '')))]
    wd = workdir(pid)
    for f in glob.glob(os.path.join(wd, 'run_*.json')):
        os.remove(f)
    known = load_known()
    results = []
    inconclusive = []
    violations = []      # confirmed, for this property, not known
    known_hits = []
    unconfirmed = []
    other_props = []
    validated = 0
    validation_mismatch = []
    extra = {}
    for idx, sp in enumerate(specs):
        if sp.get('kind') == 'custom':
            res = sp['fn'](pid, tier, seed, sp)
            results.append(res)
            inconclusive += res.get('inconclusive_list', [])
            for v in res.get('confirmed', []):
                k = match_known(known, pid, res['entry'], v['class'], v.get('model'), v.get('msg', ''))
                if k:
                    known_hits.append((k, v))
                else:
                    violations.append(v)
            validated += res.get('validated', 0)
            continue
        res = run_gosym(pid, sp, idx)
        results.append(res)
        for reason, n in (res.get('inconclusive') or {}).items():
            inconclusive.append('%s: %s (x%d)' % (sp['label'], reason, n))
        if res.get('error'):
            inconclusive.append('%s: %s' % (sp['label'], res['error'][:500]))
        # required cover labels (vacuity guard)
        for lab in sp.get('covers', cfg.get('covers', {}).get(sp['entry'], [])):
            if not (res.get('covers') or {}).get(lab):
                inconclusive.append('%s: cover label %r not reached (vacuous?)' % (sp['label'], lab))
        # violations
        seen_cls = {}
        for v in res.get('violations', []):
            cls = v.get('class') or v.get('msg')
            vp = class_props(cls, sp.get('panic_props', cfg.get('panic_props', [pid])))
            if pid not in vp:
                other_props.append(dict(harness=sp['entry'], cls=cls, props=vp))
                continue
            if seen_cls.get(cls, 0) >= 3:
                continue
            seen_cls[cls] = seen_cls.get(cls, 0) + 1
            v = dict(v, harness=sp['entry'], spec=sp)
            if sp['replayable'] and 'step-bound' not in cls:
                rp = replay_native(pid, sp, v['model'])
                v['replay'] = rp
                confirmed = rp['result'].startswith('assert-failed') or rp['result'].startswith('panic')
            else:
                confirmed = True
                v['replay'] = dict(result='not replayed natively (stubbed environment or SSA step count, which only the engine measures); the counterexample is the engine\'s deterministic run of the real SSA on the listed input', covers=[])
            if not confirmed:
                unconfirmed.append(v)
                continue
            k = match_known(known, pid, sp['entry'], cls, v.get('model'), v.get('msg', ''))
            if k:
                known_hits.append((k, v))
            else:
                violations.append(v)
        # translator validation: engine sample paths must behave the same natively
        if sp['replayable'] and not res.get('error'):
            for s in (res.get('samples') or [])[:cfg.get('validate', 3)]:
                rp = replay_native(pid, sp, s['model'])
                if rp['result'] == 'build-failed':
                    inconclusive.append('%s: native harness does not build against this tree' % sp['label'])
                    break
                validated += 1
                if rp['result'] != 'ok' or sorted(rp['covers']) != sorted(s.get('covers') or []):
                    validation_mismatch.append(dict(harness=sp['entry'], model=s['model'], engine_covers=s.get('covers'),
                                                    native=rp['result'], native_covers=rp['covers']))
    for mm in validation_mismatch:
        inconclusive.append('translator validation mismatch in %s: engine path ok with covers %s, native %s covers %s (model %s)' %
                            (mm['harness'], mm['engine_covers'], mm['native'], mm['native_covers'], json.dumps(mm['model'], sort_keys=True)))
    for v in unconfirmed:
        inconclusive.append('unconfirmed counterexample in %s: %s (native replay: %s)' % (v['harness'], v['msg'], v['replay']['result']))

    # ---- report
    rc = 0
    replay_paths = []
    for k, v in known_hits:
        pass
    printed = set()
    for k, v in known_hits:
        if k['id'] in printed:
            continue
        printed.add(k['id'])
        print('KNOWN-FINDING: property=%s %s' % (pid, k['what']))
    # a listed open finding that no longer reproduces is reported (not an error)
    for n, v in enumerate(violations):
        rdir = os.path.join(VERIF, 'replays', pid + ALT, 'case_%d' % n)
        os.makedirs(rdir, exist_ok=True)
        tape = os.path.join(rdir, 'tape.json')
        sp = v.get('spec')
        info = dict(property=pid, harness=v.get('harness'), msg=v.get('msg'), cls=v.get('class'), model=v.get('model'),
                    notes=v.get('notes'), replay=v.get('replay'), params=sp['params'] if sp else None,
                    pkg=sp['pkg'] if sp else None, overlay=sp['overlay'] if sp else None, entry=sp['entry'] if sp else None,
                    artifacts=v.get('artifacts'))
        json.dump(info, open(tape, 'w'), indent=1, sort_keys=True, default=str)
        if v.get('artifact_dir') and os.path.isdir(v['artifact_dir']):
            dst = os.path.join(rdir, 'files')
            shutil.rmtree(dst, ignore_errors=True)
            shutil.copytree(v['artifact_dir'], dst)
        print('VIOLATION property=%s replay=%s' % (pid, tape))
        print('  harness=%s %s' % (v.get('harness'), v.get('msg')))
        if v.get('model'):
            print('  input: %s' % json.dumps(v.get('model'), sort_keys=True))
        replay_paths.append(tape)
        rc = 1
    if rc == 0 and inconclusive:
        rc = 2
        for i in inconclusive[:20]:
            print('INCONCLUSIVE property=%s %s' % (pid, i))
    write_evidence(pid, tier, seed, cfg, results, violations, known_hits, inconclusive, other_props, validated, time.time() - t0)
    if rc == 0:
        print('OK property=%s tier=%s' % (pid, tier))
    return rc


def write_evidence(pid, tier, seed, cfg, results, violations, known_hits, inconclusive, other_props, validated, wall):
    paths = sum(r.get('paths', 0) for r in results)
    decisions = sum(r.get('decisions', 0) for r in results)
    funcs = {}
    models = {}
    for r in results:
        for f, n in (r.get('functions_executed') or {}).items():
            if '.v' in f.rsplit('/', 1)[-1] and re.search(r'\.v[A-Z]', f):
                continue
            tgt = models if not f.startswith(('github.com/google/wire', '(*github.com/google/wire', '(github.com/google/wire')) and \
                (f.split('.')[0].lstrip('(*') in ('fmt', 'log', 'sort', 'strings', 'strconv', 'unicode', 'go/token', 'os', 'io/ioutil', 'path/filepath', 'unicode/utf8', 'bytes')
                 or 'Hasher' in f or f in ('go/types.Identical', 'go/types.TypeString', 'go/types.Implements')) else funcs
            tgt[f] = tgt.get(f, 0) + n
    samples = []
    for r in results:
        for s in (r.get('samples') or [])[:2]:
            samples.append(dict(harness=r.get('entry'), params=(r.get('_spec') or {}).get('params'), input=s.get('model'), covers=s.get('covers')))
        for s in (r.get('sample_cases') or [])[:3]:
            samples.append(s)
    runs = []
    for r in results:
        sp = r.get('_spec') or {}
        runs.append(dict(harness=r.get('entry'), params=sp.get('params'), paths=r.get('paths'), completed=r.get('completed'),
                         pruned=r.get('pruned'), assertions=r.get('assertions_discharged'), solver_queries=r.get('solver_queries'),
                         solver_sat=r.get('solver_sat'), solver_unsat=r.get('solver_unsat'), solver_unknown=r.get('solver_unknown'),
                         solver_wall_s=round(r.get('solver_wall_s') or 0, 2), wall_s=round(r.get('_wall') or r.get('wall_s') or 0, 2),
                         covers=r.get('covers'), bounds=r.get('bounds'), violations=len(r.get('violations') or []),
                         inconclusive=r.get('inconclusive'), extra=r.get('extra')))
    level = cfg['level']
    cov = dict(
        evaluations=paths or sum(r.get('programs', 0) for r in results) or 1,
        distinct_nontrivial=sum((r.get('completed') or 0) for r in results) or sum(r.get('programs', 0) for r in results),
        rule=cfg.get('rule', 'each evaluation is one symbolic path of a harness over the real SSA: a path condition standing for every input that drives '
                     'the code the same way; paths are pairwise disjoint by construction (decision prefixes), non-trivial = completed (not pruned by an assumption)'),
        samples=samples[:8] or [dict(note='no completed path')],
        states=max(paths, 1), transitions=max(decisions, 1), traces_validated_against_impl=validated,
        programs=sum(r.get('programs', 0) for r in results) or None,
        disagreements_checked=sum(r.get('disagreements_checked', 0) for r in results) if any('disagreements_checked' in r for r in results) else None,
        functions_encoded=dict(sorted(funcs.items(), key=lambda kv: -kv[1])[:60]),
        models_and_stubs_hit=models,
        runs=runs,
        solver=dict(name='z3 4.8.12 (z3 -in, one process per worker)', queries=sum(r.get('solver_queries') or 0 for r in results),
                    wall_s=round(sum(r.get('solver_wall_s') or 0 for r in results), 2)),
        bounds=cfg.get('bounds', {}).get(tier, cfg.get('bounds_text', '')),
        outside_claim=cfg.get('outside', ''),
        inconclusive=inconclusive[:50],
        known_findings_reproduced=[k['id'] for k, _ in known_hits],
        violations_of_other_properties_seen=other_props[:20],
        exhaustive=False,
    )
    cov = {k: v for k, v in cov.items() if v is not None}
    ev = dict(property_id=pid, tier=tier if tier in ('quick', 'thorough') else 'quick', seed=seed, level=level, coverage=cov,
              assumptions=cfg.get('assumptions', []), wall_s=round(wall, 2), violations=len(violations))
    evdir = os.path.join(VERIF, 'evidence') if not ALT else os.path.join(VERIF, 'work', ALT.strip('_'), 'evidence')
    os.makedirs(evdir, exist_ok=True)
    json.dump(ev, open(os.path.join(evdir, pid + '.json'), 'w'), indent=1, sort_keys=True, default=str)


def replay_path(pid, path):
    info = json.load(open(path))
    if info.get('entry') and info.get('model') is not None and info.get('pkg'):
        sp = spec(info['entry'], pkg=info['pkg'], overlay=info['overlay'], params=info.get('params') or {})
        rp = replay_native(pid, sp, info['model'])
        print('replay result:', rp['result'])
        print(rp['raw'][-1500:])
        return 1 if (rp['result'].startswith('assert-failed') or rp['result'].startswith('panic')) else 0
    print(json.dumps(info, indent=1)[:3000])
    return 1
