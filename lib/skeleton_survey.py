#!/usr/bin/env python3
"""Measures H_solve on many skeletons (90 s budget each) and writes lib/skeleton_pool.json:
the skeletons that complete, with their path counts and times. Used to pick seed-dependent extra
skeletons for the quick tier."""
import itertools, json, os, subprocess, sys, time
VERIF = os.path.dirname(os.path.dirname(os.path.abspath(__file__)))
I = 'go/types,golang.org/x/tools/go/types/typeutil,errors,go/token,go/ast'
env = dict(os.environ, GOFLAGS='-mod=mod', GOPROXY='off', GOSUMDB='off', GOTOOLCHAIN='local')
subprocess.run(['go', 'build', '-o', '../bin/gosym', '.'], cwd=os.path.join(VERIF, 'engine'), env=env, check=True)
cands = []
for n in (4, 5):
    for body in itertools.product('12345', repeat=n - 2):
        sk = '1' + ''.join(body) + '67' if n > 3 else None
        if body.count('1') + body.count('2') > 2:
            continue
        # a binding or field as last body element has only leaves to the right: fine
        cands.append(int('1' + ''.join(body) + '67'))
cands = sorted(set(cands))
out = []
budget = float(sys.argv[1]) if len(sys.argv) > 1 else 3600
t_start = time.time()
for sk in cands:
    for direct in (0, 1):
        if time.time() - t_start > budget:
            break
        res = '/tmp/survey.json'
        t0 = time.time()
        r = subprocess.run([os.path.join(VERIF, 'bin', 'gosym'), '-overlay', os.path.join(VERIF, 'harness/wire'), '-entry', 'H_solve', '-interp', I,
                            '-param', 'skeleton=%d' % sk, '-param', 'K=1', '-param', 'direct=%d' % direct, '-deadline', '90s', '-out', res],
                           env=env, capture_output=True, text=True)
        try:
            j = json.load(open(res))
        except Exception:
            continue
        ok = r.returncode == 0
        out.append(dict(skeleton=sk, direct=direct, K=1, paths=j.get('paths'), wall=round(time.time() - t0, 1), ok=ok, violations=len(j.get('violations') or [])))
        print(out[-1], flush=True)
json.dump(out, open(os.path.join(VERIF, 'lib', 'skeleton_pool.json'), 'w'), indent=0)
