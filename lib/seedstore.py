#!/usr/bin/env python3
"""seedstore.py <json>: stores confirmed seeded changes from /tmp/seedout/<name>/ as /verif/seeded/S<nn>-<prop>-<nick>/.
The json file holds a list of [name, prop, nick, needs, result, origin_round]."""
import os, shutil, json, sys, glob, re
items = json.load(open(sys.argv[1]))
nums = [int(re.match(r'S(\d+)', os.path.basename(d)).group(1)) for d in glob.glob('/verif/seeded/S*')]
n = max(nums) + 1
for name, pid, nick, needs, result, rnd in items:
    dst = '/verif/seeded/S%02d-%s-%s' % (n, pid, nick)
    src = '/tmp/seedout/' + name
    os.makedirs(dst)
    shutil.copy(src + '/patch.diff', dst + '/patch.diff')
    if os.path.exists(src + '/NOTES.md'):
        shutil.copy(src + '/NOTES.md', dst + '/NOTES.md')
    shutil.copytree(src + '/demo', dst + '/demo', ignore=shutil.ignore_patterns('wire', 'wire_orig', 'wire.orig', '*.log', 'bin_*', 'wire_gen.go'))
    for root, dirs, files in os.walk(dst):
        for f in files:
            fp = os.path.join(root, f)
            if os.path.getsize(fp) > 300000:
                os.remove(fp)
    meta = {"breaks_property": pid,
            "origin": "independent sub-agent (%s round) given only the property text, a steer away from the earlier seeds' nicknames, and a scratch worktree (/tmp/seedwt_%s)" % (rnd, name),
            "needs_to_manifest": needs,
            "confirmed_by_me": ["go build ./... in the worktree", "lib/baseline_check.py on the worktree: 96/96 baseline tests pass with the change",
                                "demo/run.sh exits 1 with the change and 0 with the change reverted (lib/seedconfirm.sh, demo binary rebuilt from the worktree in either state)"],
            "checks_run": "lib/seedtest.sh patch.diff %s (scratch worktree of /repo with the patch applied, VERIF_REPO; /repo itself untouched)" % pid,
            "result": result}
    json.dump(meta, open(dst + '/meta.json', 'w'), indent=1)
    print(os.path.basename(dst))
    n += 1
