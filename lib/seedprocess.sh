#!/bin/bash
# seedprocess.sh <name e.g. C09r3> <prop> [<prop>...]: confirm a sub-agent's seeded change (build, baseline, demo with/without)
# and run the named properties' checks against it in a scratch worktree.
n=$1; shift
/verif/lib/seedconfirm.sh $n /tmp/seedwt_$n /tmp/seedout/$n 2>&1 | tail -3
git -C /tmp/seedwt_$n diff > /tmp/seedout/$n/patch.confirmed.diff
/verif/lib/seedtest.sh /tmp/seedout/$n/patch.confirmed.diff "$@"
