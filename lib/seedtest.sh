#!/bin/bash
# seedtest.sh <patch.diff> <prop> [<prop>...]: applies a seeded change to /repo, runs the
# quick checks of the given properties, and restores /repo. Prints one line per property.
patch=$1; shift
cd /repo || exit 3
if ! git diff --quiet; then echo "/repo is dirty"; exit 3; fi
git apply "$patch" || { echo "patch does not apply"; exit 3; }
for p in "$@"; do
  out=$(cd /verif && ./check $p --tier ${TIER:-quick} 2>/dev/null); rc=$?
  echo "$p rc=$rc $(echo "$out" | grep -c '^VIOLATION') violation line(s); first: $(echo "$out" | grep -A1 '^VIOLATION' | head -2 | tr '\n' ' ' | cut -c1-300)"
  [ $rc -eq 2 ] && echo "$out" | grep '^INCONCLUSIVE' | head -3
done
git -C /repo checkout -- .
