#!/bin/bash
# seedtest.sh <patch.diff> <prop> [<prop>...]: applies a seeded change to a scratch worktree of /repo
# (never to /repo itself), runs the checks of the given properties against it (VERIF_REPO), removes the
# worktree. Prints one line per property. TIER=thorough for the thorough tier.
patch=$(readlink -f "$1"); shift
wt=/tmp/seedtest_repo_$$
git -C /repo worktree add -q --detach $wt HEAD || exit 3
( cd $wt && git apply "$patch" ) || { echo "patch does not apply"; git -C /repo worktree remove --force $wt; exit 3; }
for p in "$@"; do
  out=$(cd /verif && VERIF_REPO=$wt ./check $p --tier ${TIER:-quick} 2>/dev/null); rc=$?
  echo "$p rc=$rc $(echo "$out" | grep -c '^VIOLATION') violation line(s); first: $(echo "$out" | grep -A1 '^VIOLATION' | head -2 | tr '\n' ' ' | cut -c1-300)"
  [ $rc -eq 2 ] && echo "$out" | grep '^INCONCLUSIVE' | head -3
done
git -C /repo worktree remove --force $wt
