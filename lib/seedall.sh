#!/bin/bash
# seedall.sh: regression run over every seeded change in /verif/seeded: each must make the quick check of the
# property it breaks exit 1. Patches that no longer apply to the current /repo HEAD are reported as such.
cd /verif
for d in seeded/S*/; do
  prop=$(python3 -c "import json,sys; print(json.load(open('$d/meta.json'))['breaks_property'])")
  res=$(./lib/seedtest.sh $d/patch.diff $prop 2>&1 | head -1)
  echo "$(basename $d): $res" | cut -c1-220
done
