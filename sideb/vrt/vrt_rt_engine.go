//go:build verif

package vrt

// Engine side: intercepted by gosym (bodies never run).

func vInt(name string, lo, hi int) int       { panic("intrinsic") }
func vBool(name string) bool                 { panic("intrinsic") }
func vAssume(c bool)                         { panic("intrinsic") }
func vAssertClass(c bool, msg, class string) { panic("intrinsic") }
func vCover(label string)                    { panic("intrinsic") }
func vNote(s string)                         { panic("intrinsic") }
func vAnd(a, b bool) bool                    { panic("intrinsic") }
func vOr(a, b bool) bool                     { panic("intrinsic") }
func vNot(a bool) bool                       { panic("intrinsic") }

func itoa(i int) string {
	if i == 0 {
		return "0"
	}
	s := ""
	for i > 0 {
		s = string(rune('0'+i%10)) + s
		i /= 10
	}
	return s
}

// FaultFor decides whether the error-capable provider node fails in this
// round, and with which error identity: the schedule is the solver's model.
func FaultFor(node int) int {
	return vInt("fault_r"+itoa(Round)+"_n"+itoa(node), 0, 2)
}

// ArgID is an arbitrary identity for an injector argument component.
func ArgID(name string) int { return vInt("arg_r"+itoa(Round)+"_"+name, 1, 999) }

func Cover(label string) { vCover(label) }
func Note(s string)      { vNote(s) }
