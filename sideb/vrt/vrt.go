// Package vrt is the instrumented runtime of the side-B corpus: provider stubs
// log calls and cleanups, and Check is the trace oracle derived from the spec
// the corpus generator chose (never from Wire's output). DESIGN.md §4.
package vrt

const (
	EvCall       = 0
	EvCleanup    = 1
	EvBadCleanup = 2 // the cleanup result a provider returned together with an error was called
)

type Event struct {
	Kind int
	Node int   // spec node index
	Args []int // identities received (flattened), for calls
	ID   int   // identity produced, for successful calls
	Err  int   // error identity returned (0 = nil)
}

var (
	Log    []Event
	nextID int
	Round  int
)

// Zero is the type of struct fields Wire must leave untouched.
type Zero struct{ ID int }

type Err struct{ ID int }

func (e *Err) Error() string { return "vrt error" }

func Reset() {
	Log = nil
}

// Call is invoked by every provider-function stub.
func Call(node int, hasErr bool, args ...int) (int, error) {
	nextID++
	id := 1000 + 8*nextID
	ev := Event{Kind: EvCall, Node: node, Args: append([]int(nil), args...), ID: id}
	if hasErr {
		if e := FaultFor(node); e != 0 {
			ev.Err = e
			ev.ID = 0
			Log = append(Log, ev)
			return 0, &Err{ID: e}
		}
	}
	Log = append(Log, ev)
	return id, nil
}

func CleanupFn(node int) func() {
	return func() { Log = append(Log, Event{Kind: EvCleanup, Node: node}) }
}

// FailedCleanupFn is what a failing provider returns as its cleanup result:
// the injector must never call it.
func FailedCleanupFn(node int) func() {
	return func() { Log = append(Log, Event{Kind: EvBadCleanup, Node: node}) }
}

// ---- spec

const (
	KFunc   = 0
	KStruct = 1 // wire.Struct: built by a composite literal, no event
	KValue  = 2
	KArg    = 3
	KField  = 4 // wire.FieldsOf
)

// Node describes one source. Comp lists, for composite nodes, where each
// flattened identity component comes from.
type Node struct {
	Name       string
	Kind       int
	HasErr     bool
	HasCleanup bool
	// Params: for KFunc, the identity lists received, as references.
	Params []Ref
	// Ident: the identity of the value this node provides, as references
	// (KFunc: nil = the id returned by its call).
	Ident []Ref
}

// Ref is one identity component: the (single) identity of a func node, the
// symbolic identity of an injector argument, or a constant.
type Ref struct {
	Node  int // >=0: component Comp of node Node's identity
	Comp  int
	Const int // used when Node < 0
}

type Spec struct {
	Nodes      []Node
	Result     []Ref // identity components of the injector result
	RetErr     bool
	RetCleanup bool
	ArgIDs     [][]int // per KArg node (indexed by node), the identities passed in
}

// Outcome of one injector invocation as seen by the driver.
type Outcome struct {
	Result     []int
	Err        error
	CleanupNil bool
	Cleanup    func()
}

func A(props string, c bool, msg string) { vAssertClass(c, msg, props+":"+msg) }

// resolve computes the expected identity component.
func (s *Spec) resolve(r Ref, produced []int) int {
	if r.Node < 0 {
		return r.Const
	}
	n := &s.Nodes[r.Node]
	switch n.Kind {
	case KFunc:
		if produced[r.Node] == 0 {
			return -1 // not produced (yet): never equal to a real identity
		}
		return produced[r.Node] + r.Comp
	case KArg:
		return s.ArgIDs[r.Node][r.Comp]
	default:
		return s.resolve(n.Ident[r.Comp], produced)
	}
}

// needs computes the func nodes the result transitively depends on.
func (s *Spec) needed() []bool {
	need := make([]bool, len(s.Nodes))
	var visitRef func(r Ref)
	var visit func(i int)
	visit = func(i int) {
		if need[i] {
			return
		}
		need[i] = true
		n := &s.Nodes[i]
		for _, p := range n.Params {
			visitRef(p)
		}
		for _, p := range n.Ident {
			visitRef(p)
		}
	}
	visitRef = func(r Ref) {
		if r.Node >= 0 {
			visit(r.Node)
		}
	}
	for _, r := range s.Result {
		visitRef(r)
	}
	return need
}

// Check is the trace oracle for one invocation. log is the event log of that
// invocation only. It invokes the returned cleanup itself.
func Check(s *Spec, out Outcome) {
	log := Log
	need := s.needed()
	produced := make([]int, len(s.Nodes))
	called := make([]int, len(s.Nodes))
	// ---- pass 1: calls
	failedAt := -1
	var acquired []int // cleanup-returning providers that succeeded, in call order
	nCleanupEvents := 0
	for i, ev := range log {
		if ev.Kind == EvBadCleanup {
			A("C03", false, "the cleanup result of the failing provider itself is never called")
			continue
		}
		if ev.Kind == EvCleanup {
			nCleanupEvents++
			continue
		}
		A("C03", failedAt < 0, "no provider is called after a provider has failed")
		n := &s.Nodes[ev.Node]
		called[ev.Node]++
		A("C02", called[ev.Node] == 1, "each provider function is called at most once per injector call")
		A("C02", need[ev.Node], "a provider is called only if the result transitively depends on it")
		A("C02,C04", nCleanupEvents == 0 || failedAt >= 0, "no cleanup runs while providers are still being called")
		A("C02", len(ev.Args) == len(n.Params), "a provider receives one value per parameter")
		for k, p := range n.Params {
			if k < len(ev.Args) {
				if p.Node >= 0 && s.Nodes[p.Node].Kind == KFunc {
					A("C02,C04", called[p.Node] == 1, "a dependency is constructed before its dependant")
				}
				A("C02,C11,C12,C13", ev.Args[k] == s.resolve(p, produced), "each parameter receives the value produced in this call by the source of its type")
			}
		}
		if ev.Err != 0 {
			failedAt = i
		} else {
			produced[ev.Node] = ev.ID
			if n.HasCleanup {
				acquired = append(acquired, ev.Node)
			}
		}
	}
	if failedAt >= 0 {
		vCover("failure")
		ferr := log[failedAt].Err
		A("C03", s.RetErr, "a failing provider can only be reached through an injector that returns error")
		e, isErr := out.Err.(*Err)
		A("C03,C14", out.Err != nil && isErr && e.ID == ferr, "the injector returns the very error of the failing provider")
		for _, r := range out.Result {
			A("C03", r == 0, "on failure the injector returns the zero value of its result type")
		}
		if s.RetCleanup {
			A("C03", out.CleanupNil, "on failure the injector returns a nil cleanup")
		}
		// cleanups after the failure: earlier acquired ones, once each, in reverse order
		var got []int
		for _, ev := range log[failedAt+1:] {
			if ev.Kind == EvCleanup {
				got = append(got, ev.Node)
			}
		}
		A("C03", nCleanupEvents == len(got), "no cleanup runs before the failure")
		A("C03", len(got) == len(acquired), "on failure every already acquired cleanup runs exactly once (and not the failing provider's)")
		for k := range got {
			if k < len(acquired) {
				A("C03", got[k] == acquired[len(acquired)-1-k], "on failure cleanups run in reverse order of acquisition")
			}
		}
		return
	}
	vCover("success")
	// ---- success
	A("C03", out.Err == nil, "without a failing provider the injector returns a nil error")
	for i := range s.Nodes {
		if s.Nodes[i].Kind == KFunc && need[i] {
			A("C02", called[i] == 1, "every provider the result depends on is called")
		}
	}
	A("C02", len(out.Result) == len(s.Result), "result shape")
	for k, r := range s.Result {
		if k < len(out.Result) {
			A("C02,C11,C12,C13", out.Result[k] == s.resolve(r, produced), "the injector returns the value produced by the source of its result type")
		}
	}
	A("C04", nCleanupEvents == 0, "no provider cleanup runs before the caller invokes the returned function")
	if s.RetCleanup {
		A("C04", !out.CleanupNil, "on success the aggregated cleanup is non-nil")
		if !out.CleanupNil {
			before := len(Log)
			out.Cleanup()
			var got []int
			for _, ev := range Log[before:] {
				A("C04", ev.Kind == EvCleanup, "the aggregated cleanup only runs cleanups")
				got = append(got, ev.Node)
			}
			A("C04", len(got) == len(acquired), "the aggregated cleanup runs the cleanup of every provider that returned one, exactly once")
			for k := range got {
				if k < len(acquired) {
					A("C04", got[k] == acquired[len(acquired)-1-k], "the aggregated cleanup runs in reverse order of acquisition")
				}
			}
			if len(acquired) >= 2 {
				vCover("cleanup>=2")
			}
		}
	} else {
		A("C03,C09", len(acquired) == 0, "a cleanup-returning provider requires an injector that returns a cleanup")
	}
}
