//go:build !verif

package vrt

import (
	"encoding/json"
	"fmt"
	"os"
)

type assertFailed struct{ Msg, Class string }

var tape = map[string]int64{}
var Covers = map[string]bool{}

func LoadTape() {
	if p := os.Getenv("VERIF_REPLAY"); p != "" {
		b, err := os.ReadFile(p)
		if err != nil {
			panic(err)
		}
		var t struct {
			Model map[string]int64 `json:"model"`
		}
		if err := json.Unmarshal(b, &t); err != nil {
			panic(err)
		}
		tape = t.Model
	}
}

// RunDriver runs f and prints the replay protocol line.
func RunDriver(f func()) {
	defer func() {
		r := recover()
		switch p := r.(type) {
		case nil:
			fmt.Println("REPLAY-RESULT: ok")
		case assertFailed:
			fmt.Printf("REPLAY-RESULT: assert-failed %s :: %s\n", p.Class, p.Msg)
		default:
			fmt.Printf("REPLAY-RESULT: panic %v\n", r)
		}
		for k := range Covers {
			fmt.Println("REPLAY-COVER:", k)
		}
	}()
	f()
}

func vAssertClass(c bool, msg, class string) {
	if !c {
		panic(assertFailed{msg, class})
	}
}
func vCover(label string) { Covers[label] = true }
func vNote(s string)      {}

func FaultFor(node int) int {
	return int(tape[fmt.Sprintf("fault_r%d_n%d", Round, node)])
}

func ArgID(name string) int {
	v, ok := tape[fmt.Sprintf("arg_r%d_%s", Round, name)]
	if !ok {
		return 1
	}
	return int(v)
}

func Cover(label string) { vCover(label) }
func Note(s string)      {}
